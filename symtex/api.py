"""Harness-facing API, identical in symbolic and concrete mode."""
from . import cond, models, runtime as R


class SymbolicSX:
    symbolic = True
    @staticmethod
    def And(*xs):
        return R.wrap(R.And(*xs))

    @staticmethod
    def Or(*xs):
        return R.wrap(R.Or(*xs))

    @staticmethod
    def Not(x):
        return R.wrap(R.Not(x))

    @staticmethod
    def Iff(a, b):
        a, b = R.B(a), R.B(b)
        return R.wrap(R.Or(R.And(a, b), R.And(R.Not(a), R.Not(b))))

    @staticmethod
    def fresh(n=1):
        return R.ST.fresh(n)

    @staticmethod
    def assume(c):
        R.ST.assume(c)

    @staticmethod
    def check(c, label='assert', detail=None):
        R.ST.check(c, label, detail)

    @staticmethod
    def ch_in(ch, ranges):
        return R.wrap(R.ch_in(ch, ranges))

    @staticmethod
    def ch_among(ch, chars):
        return R.wrap(R.ch_among(ch, chars))

    @staticmethod
    def ch_eq(a, b):
        return R.wrap(R.ch_eq(a, b))

    @staticmethod
    def ch_ws(ch):
        return R.wrap(R.ch_ws(ch))

    @staticmethod
    def s_eq(a, b):
        return R.wrap(models.s_eq(a, b))

    @staticmethod
    def same_char(a, b):
        """syntactic identity of two characters (same tag or same concrete character)"""
        return a == b

    @staticmethod
    def is_symbolic(s):
        return R.tagged(s)

    raw = staticmethod(R.raw)

    @staticmethod
    def frame(exc):
        from . import explore
        return explore.texsoup_frame(exc)

    @staticmethod
    def decide(c):
        """fork on a condition (use only where the oracle mirrors a decision of the code under test)"""
        return R.ST.decide(R.B(c))


class ConcreteViolation(BaseException):
    def __init__(self, label, detail=None):
        BaseException.__init__(self, label)
        self.label, self.detail = label, detail


class ConcreteAbort(BaseException):
    pass


class ConcreteSX:
    """replays a harness on the real package with the characters of a model"""
    symbolic = False

    def __init__(self, assignment, active=None, twin=False):
        self.assignment = assignment
        self.n = 0
        self.active = active
        self.twin = twin

    def fresh(self, n=1):
        if self.n + n > len(self.assignment):
            raise ConcreteAbort()       # the recorded model does not reach this far (divergent replay)
        out = ''.join(chr(self.assignment[self.n + i]) for i in range(n))
        self.n += n
        return out

    def assume(self, c):
        if not c:
            raise ConcreteAbort()

    def check(self, c, label='assert', detail=None):
        if self.active is not None and not label.startswith(self.active):
            return
        if self.twin or not c:
            if callable(detail):
                try:
                    detail = detail()
                except Exception as e:      # a detail printer must never mask the violation
                    detail = 'detail unavailable: %r' % (e,)
            raise ConcreteViolation(label, detail)

    @staticmethod
    def And(*xs):
        return all(xs)

    @staticmethod
    def Or(*xs):
        return any(xs)

    @staticmethod
    def Not(x):
        return not x

    @staticmethod
    def Iff(a, b):
        return bool(a) == bool(b)

    @staticmethod
    def ch_in(ch, ranges):
        return any(lo <= ord(ch) <= hi for lo, hi in ranges)

    @staticmethod
    def ch_among(ch, chars):
        return ch in chars

    @staticmethod
    def ch_eq(a, b):
        return a == b

    @staticmethod
    def ch_ws(ch):
        return ch.isspace()

    @staticmethod
    def s_eq(a, b):
        return str(a) == str(b)

    @staticmethod
    def same_char(a, b):
        return a == b

    @staticmethod
    def is_symbolic(s):
        return False

    @staticmethod
    def raw(s):
        return s if type(s) is str else str.__str__(s)

    @staticmethod
    def frame(exc):
        from . import explore
        return explore.texsoup_frame(exc)

    @staticmethod
    def decide(c):
        return bool(c)
