"""C18 argument lists behave like Python lists of groups."""
import itertools
PROPERTY = 'C18'

POOL = ['b0', 'b1', 'k2', 'b0x']
STRS = ['sb', 'sk', 'bad1', 'bad2', 'blank']
IDX = [('abs', 0), ('abs', 1), ('abs', -1), ('len', 0), ('len', 1), ('len', -1), ('abs', -3), ('abs', 5)]


def ops_all():
    ops = []
    for k in ['b0', 'b1', 'k2', 'sb', 'sk', 'bad1', 'bad2', 'blank', 'sbb', 'skk', 'sbn', 'sknb']:
        ops.append(('append', k))
    ops.append(('extend', ('b1', 'k2')))
    ops.append(('extend', ('sb', 'bad1')))
    for i in IDX:
        for k in ['b1', 'k2', 'sk']:
            ops.append(('insert', i, k))
    ops.append(('insert', ('abs', 0), 'bad3'))
    for k in ['b0', 'b1', 'k2', 'sb', 'sk', 'b0x', 'sbb', 'skk']:
        ops.append(('remove', k))
    for i in [('abs', 0), ('abs', -1), ('abs', 1), ('len', 0), ('abs', -4)]:
        ops.append(('pop', i))
        ops.append(('getitem', i))
    ops += [('reverse',), ('clear',), ('slice', 0, 1), ('slice', 1, None), ('slice', None, -1), ('slice', 0, 0),
            ('slice3', None, None, 2), ('slice3', None, None, -1), ('slice3', 1, None, 2), ('slice3', None, None, -2),
            ('extendgen', ('b1', 'k2'))]      # (item assignment / del are not among the operations the property lists)
    return ops


STARTS = [(), ('b0',), ('b0', 'b1'), ('b0', 'k2'), ('k2', 'b0', 'b1'), ('blank', 'b0', 'k2'), ('b0', 'blank', 'k2', 'b1'), ('b0', 'b0x')]


def plan(tier, seed):
    ops = ops_all()
    depth = 2 if tier == 'quick' else 3
    units = []
    starts = STARTS if tier != 'quick' else STARTS[:7]
    for st in starts:
        for owner in (False, True):
            seqs = [s for d in range(1, 3) for s in itertools.product(ops, repeat=d)]
            if tier == 'quick' and owner:
                seqs = [s for s in seqs if len(s) == 1 or (s[0][0] in ('insert', 'pop', 'remove', 'reverse') and s[1][0] in ('insert', 'pop', 'remove', 'append'))]
            if depth == 3 and not owner:
                core = [o for o in ops if o[0] in ('insert', 'pop', 'remove', 'reverse') and (len(o) < 3 or o[2] in ('b1', 'sk'))]
                seqs += [s for s in itertools.product(core, repeat=3)]
            for s in seqs:
                units.append(dict(hfile='args.py', fname='c18_seq', args=(st, owner, s)))
    return dict(units=units,
                bounds={'sequences': 'all operation sequences of length <= 2 over %d operation instances (%s)' % (len(ops), 'plus length 3 over the insert/pop/remove/reverse core' if depth == 3 else 'owner-attached lists: mutator pairs'),
                        'start_lists': [list(s) for s in starts],
                        'pool': 'BraceGroup(H0), BraceGroup(H1), BracketGroup(H2), second BraceGroup(H0); strings {H1} [H0] {{H1}} [[H0]] {H2{y}} [{H1}] and mismatched/blank strings; H symbolic letters'},
                outside=['sequences longer than %d' % depth],
                assumptions=['reference = Python list of the same group objects; coerced strings compared by kind and text'])
