"""C10 comments are inert."""
PROPERTY = 'C10'


def plan(tier, seed):
    import sys, os
    sys.path.insert(0, os.path.join(os.path.dirname(os.path.dirname(os.path.abspath(__file__))), 'harness'))
    nctx, nhost = 14, 18
    nmax = 4 if tier == 'quick' else 6
    units = []
    for ci in range(nctx):
        for n in range(0, nmax + 1):
            units.append(dict(hfile='comments.py', fname='c10_payload', args=(ci, 0, n, False)))
        for hi in range(1, nhost):
            for n in ((0, 1, 2) if tier == 'quick' else (0, 1, 2, 3)):
                units.append(dict(hfile='comments.py', fname='c10_payload', args=(ci, hi, n, False)))
        # what stands directly before the %: text, nothing, a zero-argument command, blanks; how the line ends: LF, CR, CRLF
        for lead in range(5):
            for term in range(3):
                if lead == 0 and term == 0:
                    continue
                for hi in ((0, 2, 6, 11, 13) if tier == 'quick' else range(nhost)):
                    units.append(dict(hfile='comments.py', fname='c10_payload', args=(ci, hi, 2, False, lead, term)))
        for k in range(0, 5):
            units.append(dict(hfile='comments.py', fname='c10_backslashes', args=(ci, k, 2 if tier == 'quick' else 3)))
    for n in range(0, nmax + 2):
        units.append(dict(hfile='comments.py', fname='c10_payload', args=(0, 0, n, True)))
    for hi in range(1, nhost):
        for lead in range(5):
            units.append(dict(hfile='comments.py', fname='c10_payload', args=(0, hi, 1, True, lead, 0)))
    return dict(units=units,
                bounds={'contexts': '%d contexts (top, env body, bracket/brace argument, group, item, $ $$ \\( \\[ math, math env, directly after \\item, env bracket arg, nested arg)' % nctx,
                        'payload': 'FREE(0..%d) over all code points except LF/CR; %d hostile prefixes (closers, openers, \\end{..}, \\item, %%, backslashes) + FREE' % (nmax, nhost - 1),
                        'termination': 'LF, CR and CRLF (all contexts) and end of input (top level)', 'before_the_percent': 'text, nothing, a zero-argument command, each also followed by a blank', 'backslashes': '0..4 before the %'},
                outside=['payloads longer than the bound'],
                assumptions=['reference tree = tree of the same document with the payload replaced by x..x'])
