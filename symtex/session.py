"""Glue: instrumented package + summary mode + dual-mode harness execution with per-path native
cross-validation and native reproduction of every counterexample."""
import collections
import importlib
import os
import signal
import sys
import time
import traceback
from . import api, cond, explore as X, instrument, models, runtime as R, summary

ALIAS = 'TexSoup_sx'
REPO = os.environ.get('VERIF_REPO', '/repo')


class ConcreteTimeout(BaseException):
    pass


def _alarm(signum, frame):
    raise ConcreteTimeout()


class Session:
    def __init__(self, root=None, use_summary=True):
        self.root = root or os.path.join(REPO, 'TexSoup')
        sys.setrecursionlimit(4000)
        instrument.install(self.root, 'TexSoup', ALIAS)
        self.mods = {m: importlib.import_module(ALIAS + '.' + m) for m in
                     ('utils', 'category', 'data', 'tokens', 'reader', 'tex')}
        self.pkg = importlib.import_module(ALIAS)
        self.summary_info = None
        self.use_summary = False
        if use_summary:
            self.set_summary(True)
        self.harnesses = {}

    def set_summary(self, on):
        if on == self.use_summary:
            return
        if on:
            if self.summary_info is None:
                saved = R.ST.active
                R.ST.active = None
                try:
                    self.summary_info = summary.build(lambda fn: X.explore(fn, want_witness=False),
                                                      self.mods['category'].categorize)
                except R.EngineError as e:
                    # the categoriser cannot be summarised (e.g. it now uses an unmodelled operation): stay in
                    # direct mode; the paths through it will be reported as unsupported / incomplete
                    self.summary_info = {'failed': str(e)}
                finally:
                    R.ST.active = saved
            if 'failed' in self.summary_info:
                self.use_summary = on
                return
            summary.install(self.mods)
        else:
            summary.uninstall(self.mods)
        self.use_summary = on

    def load(self, path):
        h = self.harnesses.get(path)
        if h is None:
            name = 'h_' + os.path.basename(path).replace('.', '_')
            sym = instrument.load_harness(path, name + '__sym', True, 'TexSoup', ALIAS, api.SymbolicSX)
            con = instrument.load_harness(path, name + '__con', False, sx=None)
            h = self.harnesses[path] = (sym, con)
        return h

    # ------------------------------------------------------------------ concrete side
    @staticmethod
    def concretize(v, assignment):
        if isinstance(v, str):
            return R.ST.concretize(v, assignment)
        if isinstance(v, (tuple, list)):
            return type(v)(Session.concretize(x, assignment) for x in v)
        if isinstance(v, dict):
            return {Session.concretize(k, assignment): Session.concretize(x, assignment) for k, x in v.items()}
        return v

    @staticmethod
    def run_concrete(con_mod, fname, args, vals, active=None, timeout=0, twin=False):
        """runs the harness on the real package with the given characters;
        returns (status, value, detail) with status in ok / violation / abort / exception / timeout"""
        con_mod.SX = api.ConcreteSX(vals, active, twin)
        if timeout:
            old = signal.signal(signal.SIGALRM, _alarm)
            signal.setitimer(signal.ITIMER_REAL, timeout)
        try:
            return ('ok', getattr(con_mod, fname)(*args), None)
        except api.ConcreteViolation as v:
            return ('violation', v.label, v.detail)
        except api.ConcreteAbort:
            return ('abort', None, None)
        except ConcreteTimeout:
            return ('timeout', None, None)
        except RecursionError:
            return ('exception', 'RecursionError', None)
        except Exception as e:
            return ('exception', repr(e), traceback.format_exc()[-1500:])
        finally:
            if timeout:
                signal.setitimer(signal.ITIMER_REAL, 0)
                signal.signal(signal.SIGALRM, old)

    # ------------------------------------------------------------------ one work unit
    def run_unit(self, hfile, fname, args, start=None, max_paths=10**7, active=None, summary_mode=True,
                 deadline=None, nsamples=2, step_budget=None, hang_label=None, twin=False):
        self.set_summary(summary_mode)
        broken = summary_mode and isinstance(self.summary_info, dict) and 'failed' in self.summary_info
        if broken:
            max_paths = min(max_paths, 30)      # categorize cannot be summarised: bug hunting only, do not burn the budget
        sym, con = self.load(hfile)
        ST = R.ST
        ST.active = active
        ST.twin = twin
        if step_budget:
            ST.step_budget = step_budget
        st0 = ST.stats.as_dict()
        fn = getattr(sym, fname)
        out = {
            'unit': (os.path.basename(hfile), fname, args, start),
            'status': collections.Counter(), 'validated': 0, 'mismatches': [], 'violations': [],
            'unreproduced': [], 'other': [], 'samples': [], 'nfresh_max': 0, 'twin': twin,
        }

        def vals_of(w, n):
            return [w[k] for k in range(n)]

        def on_path(pr):
            out['status'][pr.status] += 1
            out['nfresh_max'] = max(out['nfresh_max'], pr.nfresh)
            for label, w, _cur in pr.violations:
                n = len(w)
                vals = vals_of(w, n)
                st, val, det = self.run_concrete(con, fname, args, vals, active, timeout=20, twin=twin)
                if st == 'violation' and val == label:
                    out['violations'].append({'label': label, 'vals': vals, 'detail': det})
                    out['validated'] += 1
                else:
                    out['unreproduced'].append({'label': label, 'vals': vals, 'got': (st, str(val)[:300])})
            if pr.witness is None:
                return
            vals = vals_of(pr.witness, pr.nfresh)
            if pr.status == 'ok':
                st, val, det = self.run_concrete(con, fname, args, vals, active, timeout=20, twin=twin)
                exp = self.concretize(pr.value, pr.witness)
                if st == 'ok' and val == exp:
                    out['validated'] += 1
                    if len(out['samples']) < nsamples:
                        out['samples'].append({'input_chars': vals, 'pc': [cond.show(c) for c in pr.pc][:8],
                                               'outcome': _short(exp)})
                elif st == 'violation':
                    # the real code violates the oracle although the symbolic side did not see it
                    out['violations'].append({'label': val, 'vals': vals, 'detail': det, 'via': 'native-only'})
                    out['mismatches'].append(('native violation not seen symbolically', val, vals))
                else:
                    out['mismatches'].append((st, _short(val), _short(exp), vals))
            else:
                # hang / unsupported / harness-exception: bug hunting on the witness with the real code
                st, val, det = self.run_concrete(con, fname, args, vals, active, timeout=5, twin=twin)
                if st == 'violation':
                    out['violations'].append({'label': val, 'vals': vals, 'detail': det, 'via': pr.status})
                elif st == 'timeout' and hang_label and pr.status == 'hang':
                    out['violations'].append({'label': hang_label, 'vals': vals, 'detail': 'no result within 5 s',
                                              'via': 'hang'})
                if len(out['other']) < 5:
                    out['other'].append((pr.status, str(pr.value)[:300], (pr.detail or '')[-800:], vals, st,
                                         _short(val)))

        res = X.explore(lambda: fn(*args), max_paths=max_paths, deadline=deadline, on_path=on_path, start=start,
                        keep_paths=False)
        st1 = ST.stats.as_dict()
        out['paths'] = res.npaths
        out['stats'] = {k: st1[k] - st0[k] for k in st1}
        out['complete'] = res.complete and not broken
        out['reason'] = res.reason if not broken else 'categorize could not be summarised (%s)' % self.summary_info['failed']
        out['wall'] = res.wall
        out['status'] = dict(out['status'])
        return out

    def functions_encoded(self):
        names = set()
        for c in R.ST.funcs:
            if c is not None and c.co_filename.startswith(self.root):
                names.add('%s:%s' % (os.path.basename(c.co_filename), getattr(c, 'co_qualname', c.co_name)))
        return sorted(names)


def _short(v, n=400):
    s = repr(v)
    return s if len(s) <= n else s[:n] + '…'
