"""Work units for faulted inputs, shared by C06 / C07 / C08 / C16."""
import os
import sys

VERIF = os.path.dirname(os.path.dirname(os.path.abspath(__file__)))
sys.path.insert(0, VERIF)
from symtex import skeleton as K  # noqa: E402
from vt import cover  # noqa: E402

EXTRA = ['\\begin{verbatim}a$\\end{verbatim}', '\\begin{itemize}\\item a\\item[b] c\\end{itemize}', '$a\\left(b\\right)$',
         '\\begin{equation}x\\end{equation}', '\\section[a]{b}\\label{c}', '\\newcommand{\\x}[1]{\\begin{y}}', 'a%b\nc',
         '\\begin{a}[b]{c}d\\begin{e}f\\end{e}\\end{a}', '{a{b}c}\\\\[d]', '\\(a\\)\\[b\\]$$c$$',
         '\\begin{a} x \\end{b}%', '\\begin{a}\\end{b}\\%y%', '\\def\\x{y}\\textbf\\alpha x', '\\foo[a}b] {c}{z}',
         '\\section{A}\n\\label\n', '\\begin{e}x\\end\t{e}\n']


def base_docs(tier, seed):
    docs, info = cover.cover_docs('quick', 0)
    step = 40 if tier == 'quick' else 6
    out = list(EXTRA)
    for di in range((seed % step), len(docs), step):
        s = K.doc_src(K.variant(docs[di], set(), di))
        if len(s) <= (40 if tier == 'quick' else 60):
            out.append(s)
    return out


def fault_units(tier, seed, kinds=('trunc', 'trunc+', 'subst', 'insert', 'delete', 'swap')):
    units = []
    for s in base_docs(tier, seed):
        n = len(s)
        for kind in kinds:
            rng = range(n + 1) if kind in ('trunc', 'trunc+', 'insert') else range(n - 1) if kind == 'swap' else range(n)
            for i in rng:
                units.append(dict(hfile='faults.py', fname='fault', args=(s, kind, i), max_paths=5000))
    return units


def closer_units(tier, seed):
    docs, info = cover.cover_docs(tier, seed)
    units = []
    step = 3 if tier == 'quick' else 1
    def has_kind(nodes, kinds):
        for n in nodes:
            if n['k'] in kinds:
                return True
            for key in ('args', 'body', 'items'):
                if key in n and has_kind(n[key], kinds):
                    return True
        return False
    elig = [d for d in docs if not has_kind(d, ('math', 'mathenv', 'verb', 'list', 'item', 'def', 'comment'))
            and has_kind(d, ('cmd', 'env', 'group'))]
    for di in range(seed % step, len(elig), step):
        d = elig[di]
        for v in cover.variants(d, seed * 7919 + di)[:1]:
            for k in range(6):
                units.append(dict(hfile='faults.py', fname='closer_deleted', args=(v, k)))
    return units
