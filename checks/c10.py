"""C10 comments are inert."""
PROPERTY = 'C10'


def plan(tier, seed):
    import sys, os
    sys.path.insert(0, os.path.join(os.path.dirname(os.path.dirname(os.path.abspath(__file__))), 'harness'))
    nctx, nhost = 14, 18
    nmax = 4 if tier == 'quick' else 6
    units = []
    for ci in range(nctx):
        for n in range(0, nmax + 1):
            units.append(dict(hfile='comments.py', fname='c10_payload', args=(ci, 0, n, False)))
        for hi in range(1, nhost):
            for n in ((0, 1, 2) if tier == 'quick' else (0, 1, 2, 3)):
                units.append(dict(hfile='comments.py', fname='c10_payload', args=(ci, hi, n, False)))
        for k in range(0, 5):
            units.append(dict(hfile='comments.py', fname='c10_backslashes', args=(ci, k, 2 if tier == 'quick' else 3)))
    for n in range(0, nmax + 2):
        units.append(dict(hfile='comments.py', fname='c10_payload', args=(0, 0, n, True)))
    for hi in range(1, nhost):
        units.append(dict(hfile='comments.py', fname='c10_payload', args=(0, hi, 1, True)))
    return dict(units=units,
                bounds={'contexts': '%d contexts (top, env body, bracket/brace argument, group, item, $ $$ \\( \\[ math, math env, directly after \\item, env bracket arg, nested arg)' % nctx,
                        'payload': 'FREE(0..%d) over all code points except LF/CR; %d hostile prefixes (closers, openers, \\end{..}, \\item, %%, backslashes) + FREE' % (nmax, nhost - 1),
                        'termination': 'line break (all contexts) and end of input (top level)', 'backslashes': '0..4 before the %'},
                outside=['payloads longer than the bound', 'CR-terminated comment lines'],
                assumptions=['reference tree = tree of the same document with the payload replaced by x..x'])
