"""C08 serialisation conserves the characters of any parseable input."""
PROPERTY = 'C08'


def plan(tier, seed):
    nmax = 4 if tier == 'quick' else 5
    units = []
    for n in range(0, nmax + 1):
        units.append(dict(hfile='free.py', fname='c08_free', args=(n, 'C08'), summary_mode=True,
                          split=(256 if n >= 5 else 96 if n == 4 else (8 if n == 3 else 0))))
    from vt import faultplan, blankplan
    units += blankplan.units(tier, seed)
    units += faultplan.fault_units(tier, seed)
    return dict(units=units,
                bounds={'whitespace_documents_and_templates': blankplan.BOUNDS, 'faulted_documents': 'every truncation (+ one free character), substitution of one position by a free character, insertion of a free character, deletion and adjacent transposition at every position of %d base documents (<= 40 / 60 characters)' % len(faultplan.base_docs(tier, seed)), 'free_strings': 'every string of length 0..%d over all code points except NUL/DEL, not containing \\def' % nmax},
                outside=['strings longer than %d characters' % nmax],
                assumptions=['oracle: output = input with only blank runs (space, tab, LF, CR) deleted that are directly followed by { or ['])


def signature(v):
    d = v.get('detail') or {}
    if isinstance(d, dict) and d.get('sig'):
        return '%s|%s' % (v['label'], d['sig'])
    return v['label']
