"""Validation of the translator and of the operation models (DESIGN §3.1, §10.1):
 (A) the repository's own tests and doctests run against the *instrumented* package (finder installed under the
     name TexSoup) and must all pass: the transformation is behaviour-preserving on concrete data;
 (B) every modelled string/list/dict/Token operation is run symbolically on strings of length <= 2 and then, for every
     assignment over a 5-character alphabet, exactly one explored path condition must hold and the symbolic result
     under that assignment must equal CPython's result on the real classes.
usage: bin/check selftest [A|B]"""
import itertools
import os
import subprocess
import sys

VERIF = os.path.dirname(os.path.dirname(os.path.abspath(__file__)))
REPO = os.environ.get('VERIF_REPO', '/repo')


def part_a():
    code = (
        "import sys\n"
        "sys.path[:0] = [%r]\n"
        "from symtex import instrument\n"
        "instrument.install(%r, 'TexSoup', 'TexSoup')\n"
        "import TexSoup, pytest\n"
        "assert hasattr(TexSoup.reader, '_sx'), 'package is not instrumented'\n"
        "sys.exit(pytest.main(['-q', '-p', 'no:cacheprovider', '--no-cov', %r, %r]))\n"
    ) % (VERIF, os.path.join(REPO, 'TexSoup'), os.path.join(REPO, 'tests'), os.path.join(REPO, 'TexSoup'))
    r = subprocess.run([sys.executable, '-c', code], cwd=REPO, capture_output=True, text=True, timeout=1800)
    tail = (r.stdout + r.stderr).strip().splitlines()[-3:]
    print('selftest A (project tests under instrumentation): rc=%d %s' % (r.returncode, ' | '.join(tail)[-300:]))
    return r.returncode == 0


def part_b():
    sys.path[:0] = [VERIF, REPO]
    from symtex import session, cond
    S = session.Session(use_summary=False)
    h = os.path.join(VERIF, 'harness', 'hmodels.py')
    sym, con = S.load(h)
    from symtex import runtime as R, explore as X
    total = bad = 0
    for fname, argsets in [('ops', [(n, m) for n in range(0, 3) for m in range(0, 3)]), ('tokens', [(n,) for n in range(0, 3)])]:
        for args in argsets:
            R.ST.active = None
            R.ST.twin = False
            fn = getattr(sym, fname)
            res = X.explore(lambda: fn(*args))
            if not res.complete:
                print('  incomplete', fname, args, res.reason)
                bad += 1
                continue
            oks = [p for p in res.paths if p.status == 'ok']
            others = [p for p in res.paths if p.status not in ('ok', 'abort')]
            for p in others[:2]:
                print('  PATH', p.status, p.value, (p.detail or '')[-300:])
                bad += 1
            nv = sum(args) if fname == 'ops' else 2 * args[0]
            for vals in itertools.product([ord(c) for c in 'ab \n\r'], repeat=nv):
                a = dict(enumerate(vals))
                hits = [p for p in oks if all(cond.evaluate(c, a) for c in p.pc)]
                total += 1
                if len(hits) != 1:
                    bad += 1
                    print('  partition error', fname, args, vals, len(hits))
                    continue
                exp = S.concretize(hits[0].value, a)
                st, val, _ = S.run_concrete(con, fname, args, list(vals))
                if st != 'ok' or val != exp:
                    bad += 1
                    print('  MISMATCH', fname, args, repr(''.join(map(chr, vals))), st)
    print('selftest B (operation models vs CPython): %d assignments, %d disagreements' % (total, bad))
    return bad == 0 and total > 0


def main(argv):
    which = argv[0] if argv else 'AB'
    ok = True
    if 'A' in which:
        ok = part_a() and ok
    if 'B' in which:
        ok = part_b() and ok
    print('selftest %s' % ('PASSED' if ok else 'FAILED'))
    return 0 if ok else 2
