"""C16 serialised output is a fixed point of the parser."""
PROPERTY = 'C16'


def plan(tier, seed):
    nmax = 4 if tier == 'quick' else 5
    units = []
    for n in range(0, nmax + 1):
        units.append(dict(hfile='free.py', fname='c08_free', args=(n, 'C16'), summary_mode=True,
                          split=(256 if n >= 5 else 96 if n == 4 else (8 if n == 3 else 0))))
    from vt import faultplan, blankplan
    units += blankplan.units(tier, seed)
    units += faultplan.fault_units(tier, seed)
    return dict(units=units,
                bounds={'whitespace_documents_and_templates': blankplan.BOUNDS, 'faulted_documents': 'every truncation (+ one free character), substitution of one position by a free character, insertion of a free character, deletion and adjacent transposition at every position of %d base documents (<= 40 / 60 characters)' % len(faultplan.base_docs(tier, seed)), 'free_strings': 'every string of length 0..%d over all code points except NUL/DEL, not containing \\def' % nmax},
                outside=['strings longer than %d characters' % nmax],
                assumptions=['shape = nested (kind, name, args, contents) tuples with adjacent text merged'])
