"""C04 navigation views of a node are mutually consistent."""
PROPERTY = 'C04'


def plan(tier, seed):
    from vt import cover
    units, info = cover.doc_units(tier, seed, 'doc.py', 'doc_nav', blank_bias=True)
    return dict(units=units,
                bounds=dict(info, nodes='every node of every skeleton variant (root included), to depth 6',
                            holes='TEXT holes range over all code points incl. every Unicode whitespace (the isspace filter is a solver decision)'),
                outside=['documents outside the skeleton set'],
                assumptions=['whitespace-only = every character satisfies str.isspace of the running interpreter'])
