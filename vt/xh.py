"""C20 driver: CrossHair on the real Buffer (inductive steps), plus the string/token-backed part on symtex."""
import ast
import importlib.util
import json
import multiprocessing as mp
import os
import re
import sys
import time

VERIF = os.path.dirname(os.path.dirname(os.path.abspath(__file__)))
REPO = os.environ.get('VERIF_REPO', '/repo')


def _load():
    if REPO not in sys.path:
        sys.path.insert(0, REPO)
    spec = importlib.util.spec_from_file_location('c20_buffer', os.path.join(VERIF, 'xh', 'c20_buffer.py'))
    mod = importlib.util.module_from_spec(spec)
    sys.modules['c20_buffer'] = mod
    spec.loader.exec_module(mod)
    return mod


def _analyze(job):
    name, twin, timeout, env = job
    os.environ.update(env)
    import z3
    calls = {'n': 0, 't': 0.0}
    orig = z3.Solver.check

    def check(self, *a):
        t = time.perf_counter()
        try:
            return orig(self, *a)
        finally:
            calls['n'] += 1
            calls['t'] += time.perf_counter() - t
    z3.Solver.check = check
    mod = _load()
    from crosshair.core_and_libs import analyze_function, run_checkables
    from crosshair.options import AnalysisOptionSet, AnalysisKind
    fn = getattr(mod, ('twin_' + name) if twin else name)
    opts = AnalysisOptionSet(per_condition_timeout=timeout, per_path_timeout=max(10, timeout / 10), report_all=True,
                             analysis_kind=[AnalysisKind.PEP316])
    t = time.time()
    msgs = [(m.state.name, m.message) for m in run_checkables(analyze_function(fn, opts))]
    return {'name': name, 'twin': twin, 'wall': time.time() - t, 'z3_checks': calls['n'], 'z3_time': calls['t'],
            'messages': msgs}


def _replay(mod, name, message):
    """re-execute the counterexample call natively; True if the real code violates the contract"""
    m = re.search(r'when calling (\w+)\((.*?)\)(?: \(which returns|$)', message)
    if not m:
        return None, None
    try:
        args = ast.literal_eval('(' + m.group(2) + ',)')
    except Exception:
        return None, None
    try:
        ok = getattr(mod, name)(*args)
    except Exception as e:
        return True, {'call': '%s%r' % (name, args), 'raised': repr(e)}
    return (not ok), {'call': '%s%r' % (name, args), 'returned': ok}


def run_check(tier, seed):
    from vt import runner
    t0 = time.time()
    n = 4 if tier == 'quick' else 5
    timeout = 240 if tier == 'quick' else 1500
    env = {'C20_MAXLEN': str(n), 'C20_MAXARG': '5' if tier == 'quick' else '6', 'PYTHONHASHSEED': '0'}
    os.environ.update(env)
    mod = _load()
    # the string/token-backed part (symtex) runs concurrently in its own process group
    import subprocess
    sx_proc = None
    if os.path.exists(os.path.join(VERIF, 'checks', 'c20sx.py')):
        sx_proc = subprocess.Popen([sys.executable, '-m', 'vt.cli', 'c20sx', tier], cwd=VERIF, stdout=subprocess.PIPE,
                                   stderr=subprocess.STDOUT, text=True,
                                   env=dict(os.environ, VERIF_WORKERS='10'))
    jobs = [(name, False, timeout, env) for name in mod.STEPS] + [(name, True, 60, env) for name in mod.STEPS]
    ctx = mp.get_context('spawn')
    with ctx.Pool(min(16, len(jobs))) as pool:
        res = pool.map(_analyze, jobs, chunksize=1)
    problems, viols, samples = [], [], []
    confirmed = twins_refuted = 0
    z3n = 0
    z3t = 0.0
    for r in res:
        z3n += r['z3_checks']
        z3t += r['z3_time']
        states = [s for s, _ in r['messages']]
        runner.log('  %-28s %-5s %6.1fs z3 checks %6d  %s' % (r['name'], 'twin' if r['twin'] else '', r['wall'],
                                                               r['z3_checks'], '; '.join('%s: %s' % (s, m[:90]) for s, m in r['messages'])))
        if r['twin']:
            if any(s == 'POST_FAIL' for s in states):
                twins_refuted += 1
            else:
                problems.append('reachability twin of %s not refuted: %s' % (r['name'], r['messages']))
            continue
        if states == ['CONFIRMED']:
            confirmed += 1
            samples.append({'contract': r['name'], 'verdict': 'Confirmed over all paths', 'z3_checks': r['z3_checks'],
                            'bounds': 'len(seq)<=%d' % n})
            continue
        for s, m in r['messages']:
            if s in ('POST_FAIL', 'EXEC_ERR', 'POST_ERR', 'PRE_UNSAT'):
                bad, det = _replay(mod, r['name'], m)
                if bad:
                    viols.append((r['name'], m, det))
                else:
                    problems.append('%s: %s %s (not reproduced natively: %r)' % (r['name'], s, m[:200], det))
            elif s != 'CONFIRMED':
                problems.append('%s: %s %s' % (r['name'], s, m[:200]))
    # string- and token-backed buffers on symtex
    sx_rc, sx_ev = 0, None
    if sx_proc is not None:
        out, _ = sx_proc.communicate()
        sx_rc = sx_proc.returncode
        for line in out.splitlines():
            runner.log('  [symtex] ' + line)
        try:
            with open(os.path.join(VERIF, 'evidence', 'C20.json')) as f:
                sx_ev = json.load(f)
        except Exception:
            sx_ev = None
            sx_rc = sx_rc or 2
    known = {k['signature']: k for k in runner.load_known() if k['property'] == 'C20' and k.get('status') == 'known'}
    new = 0
    for name, m, det in viols:
        sig = 'C20:xh:%s' % name
        if sig in known:
            runner.log('KNOWN-FINDING: property=C20 %s' % known[sig].get('description', sig))
            continue
        v = {'label': sig, 'vals': [], 'detail': {'crosshair': m, 'native': det}, 'unit': ('c20_buffer.py', name, (), None)}
        d = os.path.join(VERIF, 'replays', 'C20')
        os.makedirs(d, exist_ok=True)
        path = os.path.join(d, 'xh_%s.json' % name)
        with open(path, 'w') as f:
            json.dump({'property': 'C20', 'engine': 'crosshair', 'contract': name, 'message': m, 'native': det,
                       'how': 'PYTHONPATH=/repo .venv/bin/python -c "import sys; sys.path.insert(0, \'xh\'); '
                              'import c20_buffer as c; print(c.%s)"' % (det or {}).get('call', name)}, f, indent=1)
        runner.log('VIOLATION property=C20 replay=%s' % path)
        runner.log('   %s -> %r' % (m[:300], det))
        new += 1
    wall = time.time() - t0
    cov = {
        'states': confirmed + (sx_ev['coverage']['states'] if sx_ev else 0),
        'transitions': z3n + (sx_ev['coverage']['transitions'] if sx_ev else 0),
        'traces_validated_against_impl': twins_refuted + (sx_ev['coverage']['traces_validated_against_impl'] if sx_ev else 0),
        'samples': samples[:4] + (sx_ev['coverage']['samples'][:3] if sx_ev else []),
        'explanation': 'E2: states = CrossHair contracts confirmed over all paths (one inductive step each from an '
                       'arbitrary API-reachable Buffer state); transitions = z3 checks issued by CrossHair (+ symtex '
                       'decisions); E1 part: symtex paths over string/token-backed buffers',
        'crosshair': {'contracts': len(mod.STEPS), 'confirmed': confirmed, 'twins_refuted': twins_refuted,
                      'z3_checks': z3n, 'z3_time_s': round(z3t, 1), 'bounds': {'len(seq)<=': n, '|int args|<=': env['C20_MAXARG']},
                      'per_condition_timeout_s': timeout,
                      'functions_encoded': ['utils.py:Buffer.__next__', 'utils.py:Buffer.__getitem__', 'utils.py:Buffer.peek',
                                            'utils.py:Buffer.forward', 'utils.py:Buffer.backward', 'utils.py:Buffer.hasNext']},
        'symtex': sx_ev['coverage'] if sx_ev else None,
        'inconclusive_reasons': problems[:10],
    }
    ev = {'property_id': 'C20', 'tier': tier, 'seed': seed, 'level': 'model_checking', 'coverage': cov,
          'assumptions': ['items of the int-backed buffer are arbitrary ints (non-zero where hasNext is used: it tests truthiness)',
                          'moves are in range (0 <= cursor <= len); peeks/moves before index 0 are outside the claim'],
          'wall_s': round(wall, 2), 'violations': new + (sx_ev.get('violations', 0) if sx_ev else 0)}
    with open(os.path.join(VERIF, 'evidence', 'C20.json'), 'w') as f:
        json.dump(ev, f, indent=1, default=repr)
    for p in problems:
        runner.log('INCONCLUSIVE: ' + p[:800])
    runner.log('[C20] crosshair: %d/%d contracts confirmed, %d/%d twins refuted, z3 checks %d (%.1fs), wall %.1fs' % (
        confirmed, len(mod.STEPS), twins_refuted, len(mod.STEPS), z3n, z3t, wall))
    if new or sx_rc == 1:
        return 1
    if problems or sx_rc != 0:
        return 2
    runner.log('[C20] PASS within bounds len(seq)<=%d' % n)
    return 0
