"""Regenerates /verif/MANIFEST.json from the table below:  .venv/bin/python -m vt.manifest"""
import json
import os

VERIF = os.path.dirname(os.path.dirname(os.path.abspath(__file__)))
TECH = 'solver-based symbolic execution of the real TexSoup source (symtex: AST instrumentation + symbolic characters, z3 decides every branch and assertion; every path and counterexample replayed natively)'
NOTE = 'bounded claim; trusted: CPython semantics for character-moving operations, z3, the symtex models of C-level string/list/dict decisions (cross-validated on every path against the real package), the harness oracle'

CHECKS = {
    # id: (engine, level text, design ref, technique)
    'C01': ('symtex', 'skeleton documents (cover of the documented-construct grammar) with symbolic TEXT/NAME holes: parse succeeds, str(soup)==src and every node text equals its source slice, for all hole values', 'DESIGN.md §5, §7 C01'),
    'C02': ('symtex', 'same exploration as C01: the shape of the parse tree equals the generating syntax tree of the skeleton for all hole values', 'DESIGN.md §7 C02'),
    'C03': ('symtex', 'find_all / find / count / attribute access / list and full-expression queries against an own traversal of the expression tree, with symbolic names and symbolic queries (name collisions chosen by the solver), every node as search root', 'DESIGN.md §7 C03'),
    'C04': ('symtex', 'contents / children / iteration / indexing / descendants / text / parent links / root all, checked at every node of every skeleton variant; text holes range over all Unicode whitespace', 'DESIGN.md §7 C04'),
    'C05': ('symtex', 'twin-hole documents: argument texts are symbolic so the solver itself chooses textually identical siblings; every target x edit compared with a string splice computed by node identity', 'DESIGN.md §7 C05'),
    'C06': ('symtex', 'all strings up to the length bound over all of Unicode, every truncation / free-character substitution and insertion / deletion / transposition of base documents, 15 container kinds nested to depth 40, both tolerance modes: outcome is a tree or a diagnostic error on every feasible path; step budget + native watchdog for non-termination', 'DESIGN.md §7 C06'),
    'C07': ('symtex', '(a) strict success implies an identical tolerant result (free strings, faulted documents); (b) every single deleted closer of skeleton documents: strict diagnoses, tolerant succeeds; (c) tolerant output = input plus closers, alignment condition discharged by z3', 'DESIGN.md §7 C07'),
    'C08': ('symtex', 'alignment oracle (only blank runs before { or [ may disappear) discharged by z3 on every path: free strings up to the length bound, faulted documents, whitespace documents, malformed-but-parseable templates', 'DESIGN.md §7 C08'),
    'C09': ('symtex', 'command + bracket/brace groups with symbolic separators in 8 contexts: the set of attached groups, their exact text and the remaining text are compared with the one-line-break rule evaluated symbolically', 'DESIGN.md §7 C09'),
    'C10': ('symtex', 'comment payloads (free characters and hostile prefixes) in 14 contexts: tree equals the tree of the benign-payload document; 0..4 backslashes before %', 'DESIGN.md §7 C10'),
    'C11': ('symtex', 'verbatim bodies (free characters under the stated side conditions, hostile fragments) for built-in and symbolic user-chosen names: single raw leaf, nothing searchable, user name equals built-in behaviour', 'DESIGN.md §7 C11'),
    'C12': ('symtex', 'every math kind x body template with symbolic math text (brackets/parentheses allowed), symbolic sizing delimiters, adjacent regions, escaped dollars, in 7 contexts: one math node of the right kind with the exact body', 'DESIGN.md §7 C12'),
    'C13': ('symtex', 'recorded positions of all nodes/tokens equal the offsets obtained by mirroring the serialisers (skeleton cover); char_pos_to_line on all strings over {letter, LF} up to the bound; search_regex offsets for a modelled regex family', 'DESIGN.md §7 C13'),
    'C14': ('symtex', 'rename to a symbolic name, string assignment with symbolic text and argument-list reordering on every target of skeleton documents: splice oracle by node identity, search deltas, and shape after re-parsing', 'DESIGN.md §7 C14'),
    'C15': ('symtex', 'all edit histories up to the depth bound on twin-hole documents against a reference document model with identity-based edits: serialised text, descendants, parent chains, search counts and the text view after every step, inserted material included', 'DESIGN.md §6.6, §7 C15'),
    'C16': ('symtex', 're-parse of the serialised text gives identical text and shape: free strings up to the length bound, faulted documents, documents with symbolic blank runs between commands and arguments (blank lines, padded environment names), malformed templates', 'DESIGN.md §7 C16'),
    'C17': ('symtex', 'input forms (str / chunk lists / tuples / generator / file object) give identical outcomes on free strings and skeleton documents; the same input spaces are explored in fresh interpreters under several PYTHONHASHSEED values and z3 decides that the outcome partitions are equivalent; interleaved parses and edits of two documents do not influence each other', 'DESIGN.md §6.5, §7 C17',
            'solver-based symbolic execution (symtex) + z3 partition-equivalence queries between explorations run under different hash seeds'),
    'C18': ('symtex', 'all operation sequences up to the depth bound on free-standing and owner-attached TexArgs against a Python list of the same objects; group contents symbolic so duplicates are chosen by the solver', 'DESIGN.md §7 C18'),
    'C19': ('symtex', 'real categorize in direct mode (all code points per position) and tokenizer partition/offset assertions for all strings up to the length bound', 'DESIGN.md §7 C19'),
    'C20': ('crosshair', 'each Buffer operation is confirmed over all paths by CrossHair as one inductive step from an arbitrary API-reachable state (int sequences up to the length bound, symbolic cursor and arguments); string- and token-backed buffers run on symtex', 'DESIGN.md §4, §7 C20',
            'CrossHair (symbolic execution of Python + z3) on the real TexSoup.utils.Buffer, inductive-step contracts; symtex for string/token-backed buffers'),
}
NOT_YET = {}


def main():
    allp = [json.loads(l)['id'] for l in open(os.path.join(VERIF, 'properties.jsonl'))]
    checks = []
    for pid in allp:
        if pid not in CHECKS:
            continue
        eng, text, ref = CHECKS[pid][:3]
        tech = CHECKS[pid][3] if len(CHECKS[pid]) > 3 else TECH
        checks.append({
            'property_id': pid,
            'quick_cmd': 'bin/check %s quick' % pid,
            'thorough_cmd': 'bin/check %s thorough' % pid,
            'evidence_file': 'evidence/%s.json' % pid,
            'replay_cmd_template': 'bin/check --replay {path}',
            'engine': eng,
            'level_claimed': {'category': 'model_checking', 'text': text, 'design_ref': ref},
            'level_note': NOTE,
            'technique': tech,
        })
    man = {
        'version': 1,
        'setup_cmd': 'bin/setup.sh',
        'hooks': {
            'guard': 'TEXSOUP_VERIF',
            'enable': 'no hooks: the checker instruments /repo/TexSoup/*.py in memory at import (AST transformer, symtex/instrument.py); nothing in /repo is guarded or changed for verification',
            'baseline_off_cmd': 'cd /repo && /venv/bin/python -m pytest -ra -q -p no:cacheprovider --timeout=900 --continue-on-collection-errors',
            'source_commits': [],
            'add_only': True,
        },
        'engines': [
            {'name': 'symtex', 'path': 'symtex/',
             'serves_properties': [p for p in allp if p in CHECKS and CHECKS[p][0] == 'symtex'],
             'kind_free_text': TECH},
            {'name': 'crosshair', 'path': 'xh/',
             'serves_properties': [p for p in allp if p in CHECKS and CHECKS[p][0] != 'symtex'],
             'kind_free_text': 'CrossHair 0.0.110 (symbolic execution of Python with z3) on the real TexSoup.utils.Buffer, inductive-step contracts'},
        ],
        'checks': checks,
        'not_applicable': [{'property_id': p, 'reason': NOT_YET.get(p, 'check under construction in this round (harness designed in DESIGN.md §7, not yet registered)')}
                           for p in allp if p not in CHECKS],
        'notes': 'All checks: exit 0 = held within the stated bounds; exit 1 + VIOLATION line = counterexample reproduced on the real code; exit 2 = inconclusive (never success).',
    }
    with open(os.path.join(VERIF, 'MANIFEST.json'), 'w') as f:
        json.dump(man, f, indent=1)
    print('MANIFEST.json: %d checks, %d not applicable' % (len(checks), len(man['not_applicable'])))


if __name__ == '__main__':
    main()
