"""C17 result depends only on the source text; parses are isolated."""
PROPERTY = 'C17'


def plan(tier, seed):
    from vt import cover
    units = []
    nmax = 3 if tier == 'quick' else 4
    for n in range(0, nmax + 1):
        units.append(dict(hfile='isolation.py', fname='c17_forms_free', args=(n,), split=(96 if n >= 4 else 16 if n == 3 else 0)))
    for n in range(1, nmax + 1):
        units.append(dict(hfile='isolation.py', fname='c17_forms_free', args=(n, False), split=(96 if n >= 4 else 16 if n == 3 else 0)))
    docs, info = cover.cover_docs(tier, seed)
    step = 6 if tier == 'quick' else 2
    for di in range(0, len(docs), step):
        for v in cover.variants(docs[di], seed * 7919 + di)[:2]:
            units.append(dict(hfile='isolation.py', fname='c17_forms_doc', args=(v,)))
    for ai in range(8):
        for bi in range(8):
            if tier == 'quick' and (ai + bi) % 2 and ai != bi:
                continue
            units.append(dict(hfile='isolation.py', fname='c17_isolation', args=(ai, bi)))
    return dict(units=units,
                bounds={'input_forms': 'str vs list/tuple at 5 split points, 3-chunk generator, list of characters, single-element list, io.StringIO; FREE(0..%d) (with and without line feeds; LF-free for the file form) and every %dth skeleton of the cover (2 split points there)' % (nmax, step),
                        'isolation': '8x8 ordered pairs (quick: half of them) of hole documents (one with unbraced arguments of fixed-signature commands): parse B, parse+edit A, parse B, edit second B tree, parse B',
                        'hash_seeds': 'sizing prefix + FREE(2), $ sizing FREE a $, FREE(3), skeleton subset explored in fresh interpreters per seed; partition equivalence with seed 0 decided by z3'},
                outside=['file objects with universal-newline translation', 'strings longer than the bounds'],
                assumptions=['PYTHONHASHSEED is the only source of iteration-order nondeterminism'])


def post(tier, seed, log):
    from vt import seeds
    return seeds.post(tier, seed, log)


def signature(v):
    d = v.get('detail') or {}
    if isinstance(d, dict) and d.get('sig'):
        return '%s|%s' % (v['label'], d['sig'])
    return v['label']
