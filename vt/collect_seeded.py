"""Copies confirmed seeded changes from the scratch area into /verif/seeded/<PROP>-<N>/ (patch.diff, demo.py, meta.json).
usage: python -m vt.collect_seeded        (reads /tmp/mut_<PROP>_out and the newest result per mutant in /tmp/mutres*)"""
import glob
import json
import os
import re
import shutil

VERIF = os.path.dirname(os.path.dirname(os.path.abspath(__file__)))


import sys
ROUND2 = len(sys.argv) > 1 and sys.argv[1] in ('r2', 'r3', 'r4', 'r5')
TAG = sys.argv[1] if len(sys.argv) > 1 else ''


def newest_results():
    res = {}
    if ROUND2:
        for d in (('/tmp/mutres_r2', '/tmp/mutres_r2b', '/tmp/mutres_r2c') if TAG == 'r2' else ('/tmp/mutres_r3', '/tmp/mutres_r3b') if TAG == 'r3' else ('/tmp/mutres_r4', '/tmp/mutres_r4b', '/tmp/mutres_r4c') if TAG == 'r4' else ('/tmp/mutres_r5', '/tmp/mutres_r5b', '/tmp/mutres_r5c')):
            for f in sorted(glob.glob(d + '/*.json'), key=os.path.getmtime):
                r = json.load(open(f))
                e = res.setdefault((r['prop'], str(r['n'])), {})
                e.setdefault('base', r)
                e['latest'] = r if not e.get('latest') else dict(r, checks=dict(e['latest'].get('checks', {}), **r.get('checks', {})))
        return res
    files = sorted(glob.glob('/tmp/mutres/*.json'), key=os.path.getmtime)
    for f in files:
        r = json.load(open(f))
        res.setdefault((r['prop'], str(r['n'])), {}).update({'base': r})
    for f in sorted(glob.glob('/tmp/mutres[2-9]_*.log') + glob.glob('/tmp/mutres_C19.log'), key=os.path.getmtime):
        txt = open(f).read()
        for m in re.finditer(r'\{\n "prop".*?\n\}\n', txt, re.S):
            r = json.loads(m.group(0))
            res.setdefault((r['prop'], str(r['n'])), {})['latest'] = r
    return res


def main():
    res = newest_results()
    for (prop, n), rr in sorted(res.items()):
        r = rr.get('latest') or rr.get('base')
        base = rr.get('base') or r
        out = (('/tmp/mut2_%s_out' if TAG == 'r2' else '/tmp/mut3_%s_out' if TAG == 'r3' else '/tmp/mut4_%s_out' if TAG == 'r4' else '/tmp/mut5_%s_out') if ROUND2 else '/tmp/mut_%s_out') % prop
        if r.get('apply', 'ok') != 'ok' or 'passed' not in r.get('tests', '') or r.get('demo_mutant_rc') != 1 or r.get('demo_clean_rc') != 0:
            continue        # not confirmed: keep nothing
        d = os.path.join(VERIF, 'seeded', ('%s-' + TAG + '-%s' if ROUND2 else '%s-%s') % (prop, n))
        os.makedirs(d, exist_ok=True)
        shutil.copy(os.path.join(out, 'patch%s.diff' % n), os.path.join(d, 'patch.diff'))
        shutil.copy(os.path.join(out, 'demo%s.py' % n), os.path.join(d, 'demo.py'))
        note = ''
        np = os.path.join(out, 'note%s.txt' % n)
        if not os.path.exists(np):
            np = os.path.join(out, 'notes%s.txt' % n)
        if os.path.exists(np):
            note = open(np).read()
        checks = {}
        for src in (base, r):
            for c, v in src.get('checks', {}).items():
                checks[c] = {'exit': v['rc'], 'wall_s': v['wall'],
                             'signatures': [l.strip()[:200] for l in v['lines'] if 'signature' in l or 'INCONCLUSIVE' in l][:3]}
        first = {c: v['rc'] for c, v in base.get('checks', {}).items()}
        if ROUND2:
            meta_first = sorted(c for c, rc in first.items() if rc == 1)
        meta = {
            'breaks_property': prop,
            'origin': 'independent sub-agent given only the property text and a scratch worktree',
            'needs_to_manifest': note[:1500],
            'confirmed': {'tests_with_change': r.get('tests'), 'demo_exit_unchanged_tree': r.get('demo_clean_rc'),
                          'demo_exit_changed_tree': r.get('demo_mutant_rc'),
                          'how': 'patch applied in a scratch worktree at /repo HEAD; /venv/bin/python -m pytest -q -p no:cacheprovider; '
                                 'PYTHONPATH=<tree> /venv/bin/python demo.py'},
            'checks_run': {c: v for c, v in checks.items()},
            'detected_by': sorted(c for c, v in checks.items() if v['exit'] == 1),
            'detected_before_strengthening': sorted(c for c, rc in first.items() if rc == 1),
        }
        with open(os.path.join(d, 'meta.json'), 'w') as f:
            json.dump(meta, f, indent=1)
        print(prop, n, 'detected by', meta['detected_by'], '(before strengthening: %s)' % meta['detected_before_strengthening'])


if __name__ == '__main__':
    main()
