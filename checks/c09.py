"""C09 arguments attach by the one-line-break rule with exact contents."""
import itertools
PROPERTY = 'C09'


def plan(tier, seed):
    units = []
    bi = seed
    if tier == 'quick':
        shapes = [(0, 1), (1, 0), (1, 1), (0, 2), (2, 1), (1, 2), (2, 2)]
        lens, cap, tails, ctxs, nlens = [0, 1, 2], 3, ['', ' t'], range(8), [1]
    else:
        shapes = [(0, 1), (1, 0), (1, 1), (0, 2), (2, 1), (1, 2), (2, 2), (3, 1), (0, 3), (1, 3), (0, 4), (3, 2)]
        lens, cap, tails, ctxs, nlens = [0, 1, 2, 3], 5, ['', ' t', '{u}'], range(8), [1, 2]
    for ci in ctxs:
        for nb, nc in shapes:
            if ci == 6 and nb > 0:
                continue        # bracket groups do not nest: a detached [..] would close the enclosing bracket argument
            for seplens in itertools.product(lens, repeat=nb + nc):
                if sum(seplens) > cap or sum(1 for x in seplens if x) > 2:
                    continue
                for tail in tails:
                    for nl in nlens:
                        if nl == 2 and (bi % 3):
                            bi += 1
                            continue
                        bi += 1
                        units.append(dict(hfile='attach.py', fname='c09', args=(ci, nb, nc, seplens, bi, tail, nl),
                                          max_paths=200000))
        for n in (0, 1, 2):
            for which in (0, 1):
                units.append(dict(hfile='attach.py', fname='c09_bare', args=(ci, n, which)))
    return dict(units=units,
                bounds={'groups': 'bracket-then-brace shapes %r' % (shapes,), 'separator_lengths': '%r per position, total <= %d, at most 2 non-empty' % (lens, cap),
                        'separators': 'every character any code point except \\ { } $ %% [ ] NUL DEL CR (first separator not starting with a letter or *)',
                        'contexts': 'top level, environment body, item, brace argument, $ math, group, bracket argument, align', 'name': 'symbolic letters, length %r, outside the signature table' % (nlens,)},
                outside=['CR as line break', 'shapes other than brackets-then-braces', 'names in the fixed-signature table'],
                assumptions=['attach(sep) := every character in {space, tab, LF} and at most one LF'])
