"""Models of the C-level decisions on strings / lists / dicts, and the instrumentation entry points
`cmp`, `call`, `getitem` that the transformed TexSoup source calls.

Everything falls through to the native operation when no symbolic data is involved.
"""
import operator
import types
from . import cond
from . import runtime as R
from .runtime import raw, tagged, wrap, B, SymBool, Unsupported

TAG_LO, TAG_HI = R.TAG_LO, R.TAG_HI

# ---------------------------------------------------------------------- strings


def s_eq(a, b):
    a, b = raw(a), raw(b)
    if len(a) != len(b):
        return False
    if a == b:
        return True
    parts = []
    for x, y in zip(a, b):
        if x != y:
            ox, oy = ord(x), ord(y)
            if not (TAG_LO <= ox <= TAG_HI) and not (TAG_LO <= oy <= TAG_HI):
                return False
            parts.append((x, y))
    return cond.And(*[R.ch_eq(x, y) for x, y in parts])


def s_contains(hay, needle):
    hay, needle = raw(hay), raw(needle)
    n, m = len(hay), len(needle)
    if m == 0:
        return True
    if m > n:
        return False
    return cond.Or(*[s_eq(hay[i:i + m], needle) for i in range(n - m + 1)])


def s_startswith(s, p, *rest):
    if rest:
        raise Unsupported('str.startswith with start/end')
    s = raw(s)
    if isinstance(p, tuple):
        return wrap(cond.Or(*[B(s_startswith(s, q)) for q in p]))
    p = raw(p)
    if len(p) > len(s):
        return False
    return wrap(s_eq(s[:len(p)], p))


def s_endswith(s, p, *rest):
    if rest:
        raise Unsupported('str.endswith with start/end')
    s = raw(s)
    if isinstance(p, tuple):
        return wrap(cond.Or(*[B(s_endswith(s, q)) for q in p]))
    p = raw(p)
    if len(p) > len(s):
        return False
    return wrap(s_eq(s[len(s) - len(p):], p))


def s_isspace(s):
    s = raw(s)
    if not s:
        return False
    return wrap(cond.And(*[R.ch_ws(c) for c in s]))


def _strip_pred(chars):
    if chars is None:
        return R.ch_ws
    chars = raw(chars)
    return lambda c: cond.Or(*[R.ch_eq(c, x) for x in chars])


def s_strip(s, chars=None, left=True, right=True):
    s = raw(s)
    p = _strip_pred(chars)
    i, j = 0, len(s)
    if left:
        while i < j and R.ST.decide(p(s[i])):
            i += 1
    if right:
        while j > i and R.ST.decide(p(s[j - 1])):
            j -= 1
    return s[i:j]


def s_find(s, sub, *rest):
    if rest:
        raise Unsupported('str.find with start/end')
    s, sub = raw(s), raw(sub)
    n, m = len(s), len(sub)
    for i in range(n - m + 1):
        if R.ST.decide(s_eq(s[i:i + m], sub)):
            return i
    return -1


def s_rfind(s, sub, *rest):
    if rest:
        raise Unsupported('str.rfind with start/end')
    s, sub = raw(s), raw(sub)
    n, m = len(s), len(sub)
    for i in range(n - m, -1, -1):
        if R.ST.decide(s_eq(s[i:i + m], sub)):
            return i
    return -1


def s_index(s, sub, *rest):
    r = s_find(s, sub, *rest)
    if r < 0:
        raise ValueError('substring not found')
    return r


def s_count(s, sub, *rest):
    if rest:
        raise Unsupported('str.count with start/end')
    s, sub = raw(s), raw(sub)
    n, m = len(s), len(sub)
    if m == 0:
        return n + 1
    i = cnt = 0
    while i <= n - m:
        if R.ST.decide(s_eq(s[i:i + m], sub)):
            cnt += 1
            i += m
        else:
            i += 1
    return cnt


def s_split(s, sep=None, maxsplit=-1):
    if sep is None or maxsplit != -1:
        raise Unsupported('str.split without separator / with maxsplit')
    s, sep = raw(s), raw(sep)
    n, m = len(s), len(sep)
    out = []
    i = start = 0
    while i <= n - m:
        if R.ST.decide(s_eq(s[i:i + m], sep)):
            out.append(s[start:i])
            i += m
            start = i
        else:
            i += 1
    out.append(s[start:])
    return out


LINE_BOUNDARIES = '\n\r\x0b\x0c\x1c\x1d\x1e\x85\u2028\u2029'
_PRED_RANGES = {}


def _pred_ranges(name):
    """code point ranges on which the str predicate `name` holds for a single character (from the interpreter)"""
    rs = _PRED_RANGES.get(name)
    if rs is None:
        rs = _PRED_RANGES[name] = R._ranges([c for c in range(R.MAXCP + 1) if getattr(chr(c), name)()])
    return rs


def s_charpred(name):
    def model(s):
        s = raw(s)
        if not s:
            return False
        return wrap(cond.And(*[R.ch_in(c, _pred_ranges(name)) for c in s]))
    return model


def s_splitlines(s, keepends=False):
    s = raw(s)
    out = []
    i = start = 0
    n = len(s)
    while i < n:
        if R.ST.decide(R.ch_among(s[i], LINE_BOUNDARIES)):
            j = i + 1
            if j < n and R.ST.decide(cond.And(R.ch_eq(s[i], '\r'), R.ch_eq(s[j], '\n'))):
                j += 1
            out.append(s[start:j] if keepends else s[start:i])
            i = start = j
        else:
            i += 1
    if start < n:
        out.append(s[start:])
    return out


def s_replace(s, old, new, count=-1):
    if count != -1:
        raise Unsupported('str.replace with count')
    if raw(old) == '':
        raise Unsupported('str.replace of the empty string')
    return raw(new).join(s_split(s, old))


STR_MODELS = {
    'replace': s_replace,
    'splitlines': s_splitlines,
    'isalpha': s_charpred('isalpha'), 'isdigit': s_charpred('isdigit'), 'isalnum': s_charpred('isalnum'),
    'isupper': lambda s: (_ for _ in ()).throw(Unsupported('str.isupper on symbolic data')),
    'startswith': s_startswith,
    'endswith': s_endswith,
    'isspace': s_isspace,
    'strip': lambda s, chars=None: s_strip(s, chars),
    'lstrip': lambda s, chars=None: s_strip(s, chars, right=False),
    'rstrip': lambda s, chars=None: s_strip(s, chars, left=False),
    'find': s_find,
    'rfind': s_rfind,
    'index': s_index,
    'count': s_count,
    'split': s_split,
    '__contains__': lambda s, x: wrap(s_contains(s, x)),
    '__eq__': lambda s, x: wrap(s_eq(s, x)) if isinstance(x, str) else NotImplemented,
    '__ne__': lambda s, x: wrap(cond.Not(s_eq(s, x))) if isinstance(x, str) else NotImplemented,
}
# C-level str operations that only move characters around
STR_TRANSPARENT = {'join', '__add__', '__mod__', '__rmod__', '__str__', '__len__', '__getitem__', '__iter__',
                   '__new__', 'format', '__repr__', '__format__', '__mul__', '__rmul__', '__radd__', '__init__',
                   '__init_subclass__', '__getnewargs__', '__sizeof__', '__reduce_ex__', '__class__'}

# ---------------------------------------------------------------------- comparison protocol


def _lookup(tp, name):
    for k in tp.__mro__:
        d = k.__dict__
        if name in d:
            return k, d[name]
    return None, None


def _sym_scalar(x):
    return type(x) in SYM_SCALARS


SYM_SCALARS = set()        # filled by summary.SymCode


def seq_eq(a, b):
    if len(a) != len(b):
        return False
    parts = []
    for x, y in zip(a, b):
        if x is y:
            continue
        r = B(cmp('==', x, y))
        if r is False:
            return False
        parts.append(r)
    return cond.And(*parts)


def _call_slot(a, b, name):
    owner, f = _lookup(type(a), name)
    if f is None:
        return NotImplemented
    if type(f) is types.FunctionType:
        return f(a, b)
    if owner is str:
        if isinstance(b, str) and (tagged(a) or tagged(b)):
            return STR_MODELS[name](a, b)
        return f(a, b)
    if owner is list or owner is tuple:
        if not isinstance(b, owner):
            return NotImplemented
        if name == '__eq__':
            return wrap(seq_eq(a, b))
        if name == '__ne__':
            return wrap(cond.Not(seq_eq(a, b)))
        if has_symbolic(a) or has_symbolic(b):
            raise Unsupported('ordering of sequences with symbolic content')
        return f(a, b)
    return f(a, b)


_REFL = {'__eq__': '__eq__', '__ne__': '__ne__', '__lt__': '__gt__', '__gt__': '__lt__',
         '__le__': '__ge__', '__ge__': '__le__'}
_OPN = {'==': '__eq__', '!=': '__ne__', '<': '__lt__', '>': '__gt__', '<=': '__le__', '>=': '__ge__'}
_NATIVE = {'==': operator.eq, '!=': operator.ne, '<': operator.lt, '>': operator.gt,
           '<=': operator.le, '>=': operator.ge}
_PRIM = (int, float, bool, type(None))


def richcmp(a, b, name):
    """CPython's do_richcompare with modelled C slots"""
    ta, tb = type(a), type(b)
    rname = _REFL[name]
    tried_refl = False
    if ta is not tb and issubclass(tb, ta) and _lookup(tb, rname)[0] is not _lookup(ta, rname)[0]:
        tried_refl = True
        r = _call_slot(b, a, rname)
        if r is not NotImplemented:
            return r
    r = _call_slot(a, b, name)
    if r is not NotImplemented:
        return r
    if not tried_refl:
        r = _call_slot(b, a, rname)
        if r is not NotImplemented:
            return r
    if name == '__eq__':
        return a is b
    if name == '__ne__':
        return a is not b
    raise TypeError("'%s' not supported between instances of %r and %r" % (name, ta.__name__, tb.__name__))


def cmp(op, a, b):
    if op == 'in':
        return contains(b, a)
    if op == 'not in':
        r = contains(b, a)
        return wrap(cond.Not(r.c)) if type(r) is SymBool else (not r)
    if op == 'is':
        return a is b
    if op == 'is not':
        return a is not b
    ta, tb = type(a), type(b)
    if ta in _PRIM and tb in _PRIM:
        return _NATIVE[op](a, b)
    return richcmp(a, b, _OPN[op])


def cmp_chain(ops, vals):
    """a op1 b op2 c ... with short-circuit; vals are thunks except the first"""
    left = vals[0]
    result = True
    for op, thunk in zip(ops, vals[1:]):
        right = thunk()
        result = cmp(op, left, right)
        if not result:          # forks if symbolic, as Python would
            return result
        left = right
    return result


def item_eq(x, y):
    """PyObject_RichCompareBool(x, y, Py_EQ): identity shortcut, then =="""
    if x is y:
        return True
    return B(cmp('==', x, y))


def is_sym(x):
    if isinstance(x, str):
        return tagged(x)
    if isinstance(x, tuple):
        return any(is_sym(y) for y in x)
    return type(x) in SYM_SCALARS or type(x) is SymBool


def has_symbolic(x, depth=2):
    if isinstance(x, str):
        return tagged(x)
    if type(x) in SYM_SCALARS or type(x) is SymBool:
        return True
    if depth and isinstance(x, (list, tuple, set, frozenset)):
        return any(has_symbolic(y, depth - 1) for y in x)
    if depth and isinstance(x, dict):
        return any(has_symbolic(y, depth - 1) for y in x.keys()) or any(has_symbolic(y, depth - 1) for y in x.values())
    return False


def contains(container, item):
    tc = type(container)
    owner, f = _lookup(tc, '__contains__')
    if f is None:
        return wrap(cond.Or(*[item_eq(x, item) for x in container]))
    if type(f) is types.FunctionType:
        return f(container, item)
    if owner is str:
        if not isinstance(item, str):
            return f(container, item)       # raises the native TypeError
        if tagged(container) or tagged(item):
            return wrap(s_contains(container, item))
        return f(container, item)
    if owner is list or owner is tuple:
        return wrap(cond.Or(*[item_eq(x, item) for x in container]))
    if owner in (set, frozenset, dict) or tc.__name__ in ('dict_keys', 'dict_values', 'dict_items'):
        if is_sym(item):
            if type(item) is tuple:
                for x in container:
                    if decide_eq(x, item):
                        return True
                return False
            return wrap(cond.Or(*[item_eq(x, item) for x in container]))
        if any(is_sym(x) for x in container):
            raise Unsupported('hashed container with symbolic members')
        return f(container, item)
    return f(container, item)


# ---------------------------------------------------------------------- containers

def l_index(lst, x, *rest):
    if rest:
        raise Unsupported('list.index with start/stop')
    for i, y in enumerate(list.__iter__(lst) if isinstance(lst, list) else lst):
        if R.ST.decide(item_eq(y, x)):
            return i
    raise ValueError('%r is not in list' % (x,))


def l_remove(lst, x):
    i = l_index(lst, x)
    list.__delitem__(lst, i)


def l_count(lst, x):
    return sum(1 for y in list.__iter__(lst) if R.ST.decide(item_eq(y, x)))


def decide_eq(x, y):
    """fork on x == y; tuples are decided element by element so that constraints stay per character"""
    if type(x) is tuple and type(y) is tuple:
        if len(x) != len(y):
            return False
        for a, b in zip(x, y):
            if not decide_eq(a, b):
                return False
        return True
    return R.ST.decide(item_eq(x, y))


def d_lookup(d, k):
    for kk in d:
        if decide_eq(kk, k):
            return True, dict.__getitem__(d, kk)
    return False, None


def d_get(d, k, default=None):
    if is_sym(k):
        found, v = d_lookup(d, k)
        return v if found else default
    return dict.get(d, k, default)


def getitem(obj, key):
    if type(obj) is dict and is_sym(key):
        found, v = d_lookup(obj, key)
        if not found:
            raise KeyError(key)
        return v
    return obj[key]


# ---------------------------------------------------------------------- calls

SAFE_NAMES = {
    # builtins and methods that never look at the value of a character
    'len', 'isinstance', 'issubclass', 'hasattr', 'getattr', 'setattr', 'iter', 'next', 'enumerate', 'print',
    'repr', 'id', 'callable', 'any', 'all', 'map', 'filter', 'zip', 'range', 'reversed', 'append', 'extend',
    'insert', 'pop', 'clear', 'reverse', 'copy', 'items', 'keys', 'values', 'update', 'setdefault',
    '__init__', '__new__', '__getitem__', '__setitem__', '__delitem__', '__len__', '__iter__', '__str__',
    '__repr__', 'format', 'chain', 'wraps', 'add', 'type', 'vars', 'dir', 'send', 'close', 'throw', 'super',
    'bisect', 'bisect_right', 'bisect_left', 'max', 'min', 'sum', 'abs', 'divmod',
}
EXTRA_MODELS = {}          # id(callable) -> model, e.g. re.finditer


_FT = types.FunctionType
_MT = types.MethodType
_BT = types.BuiltinFunctionType
_MODULE = types.ModuleType
_FAST_BUILTINS = {}        # id(builtin function) -> True when always safe to run natively


def call(f, *a, **k):
    tf = type(f)
    if tf is _FT:
        st = R.ST
        st.steps += 1
        if st.steps > st.step_budget:
            raise R.Hang()
        code = f.__code__
        if code not in st.funcs:
            if _foreign(f.__globals__):
                # a Python function that is not instrumented (standard library): it may hand its arguments to
                # C code that decides on characters
                return _call_foreign(f, a, k)
            st.funcs.add(code)
        return f(*a, **k)
    if tf is _MT:
        st = R.ST
        st.steps += 1
        if st.steps > st.step_budget:
            raise R.Hang()
        fn = f.__func__
        code = getattr(fn, '__code__', None)
        if code is not None and code not in st.funcs:
            g = fn.__globals__
            if _foreign(g):
                return _call_foreign(f, a, k)
            st.funcs.add(code)
        return f(*a, **k)
    if tf is _BT:
        if id(f) in _FAST_BUILTINS:
            return f(*a, **k)
        slf = f.__self__
        if type(slf) is _MODULE or slf is None:
            # plain builtin function such as len / isinstance / hash
            if f.__name__ in SAFE_NAMES and id(f) not in EXTRA_MODELS:
                _FAST_BUILTINS[id(f)] = f
                return f(*a, **k)
            return _call_builtin(f, slf, a, k)
        return _call_builtin(f, slf, a, k)
    if tf is type:
        if f in _GUARDED_TYPES and has_symbolic(a):
            if f is bool and type(a[0]) is SymBool:
                return bool(a[0])
            if f is not bool and f is not str and f is not list and f is not tuple:
                raise Unsupported('%s() of symbolic data' % f.__name__)
        return f(*a, **k)
    return _call_other(f, tf, a, k)


_GUARDED_TYPES = {set, frozenset, dict, int, float, bool, bytes, bytearray}


def _call_builtin(f, slf, a, k):
    name = f.__name__
    if isinstance(slf, str):
        m = STR_MODELS.get(name)
        if m is not None:
            if tagged(slf) or has_symbolic(a):
                return m(slf, *a, **k)
            return f(*a, **k)
        if name in STR_TRANSPARENT:
            return f(*a, **k)
        if tagged(slf) or has_symbolic(a):
            raise Unsupported('str.%s on symbolic data' % name)
        return f(*a, **k)
    if isinstance(slf, list):
        if name == 'index':
            return l_index(slf, *a)
        if name == 'remove':
            return l_remove(slf, *a)
        if name == 'count':
            return l_count(slf, *a)
        if name == '__contains__':
            return wrap(cond.Or(*[item_eq(x, a[0]) for x in list.__iter__(slf)]))
        if name == 'sort' and has_symbolic(slf):
            raise Unsupported('list.sort on symbolic data')
        return f(*a, **k)
    if isinstance(slf, tuple):
        if name == 'index':
            return l_index(slf, *a)
        if name == 'count':
            return sum(1 for y in slf if R.ST.decide(item_eq(y, a[0])))
        if name == '__contains__':
            return wrap(cond.Or(*[item_eq(x, a[0]) for x in slf]))
        return f(*a, **k)
    if isinstance(slf, dict):
        if name == 'get':
            return d_get(slf, *a)
        if name in ('pop', 'setdefault', '__getitem__', '__contains__') and a and is_sym(a[0]):
            raise Unsupported('dict.%s with symbolic key' % name)
        return f(*a, **k)
    if isinstance(slf, (set, frozenset)) and has_symbolic(a):
        raise Unsupported('set.%s with symbolic element' % name)
    m = EXTRA_MODELS.get(id(f))
    if m is not None:
        return m(*a, **k)
    if name in SAFE_NAMES:
        return f(*a, **k)
    if has_symbolic(a) or (k and has_symbolic(tuple(k.values()))):
        raise Unsupported('builtin %s on symbolic data' % name)
    return f(*a, **k)


def _foreign(g):
    return '_sx' not in g and '__symtex_trusted__' not in g and not g.get('__name__', '').startswith('symtex.')


PY_SAFE = {'wraps', 'update_wrapper', 'namedtuple', 'partial'}


def _call_foreign(f, a, k):
    m = EXTRA_MODELS.get(id(f))
    if m is not None:
        return m(*a, **k)
    if getattr(f, '__name__', '') in PY_SAFE:
        return f(*a, **k)
    if has_symbolic(a) or (k and has_symbolic(tuple(k.values()))):
        raise Unsupported('uninstrumented function %s.%s on symbolic data' % (getattr(f, '__module__', '?'), getattr(f, '__name__', '?')))
    return f(*a, **k)


def _call_other(f, tf, a, k):
    if tf is types.MethodWrapperType:
        return _call_builtin(f, f.__self__, a, k)
    if tf is types.MethodDescriptorType or tf is types.WrapperDescriptorType:
        name = f.__name__
        oc = f.__objclass__
        if oc is list and name in ('index', 'remove', 'count'):
            return {'index': l_index, 'remove': l_remove, 'count': l_count}[name](*a)
        if oc is str and name in STR_MODELS and has_symbolic(a):
            return STR_MODELS[name](*a, **k)
        if oc is dict and name == 'get':
            return d_get(*a)
        return f(*a, **k)
    if isinstance(f, type):
        return f(*a, **k)
    m = EXTRA_MODELS.get(id(f))
    if m is not None:
        return m(*a, **k)
    if tf.__module__ == 'functools' and (has_symbolic(a) or (k and has_symbolic(tuple(k.values())))):
        # lru_cache / partial objects hand their arguments to C code (hashing, comparison)
        raise Unsupported('%s object called with symbolic data' % tf.__name__)
    return f(*a, **k)


# ---------------------------------------------------------------------- re.finditer (small pattern family, C13)
import re as _re


class _Match:
    def __init__(self, text, start, end):
        self._t, self._s, self._e = text, start, end

    def group(self, *a):
        return self._t[self._s:self._e]

    def start(self, *a):
        return self._s

    def end(self, *a):
        return self._e

    def span(self, *a):
        return (self._s, self._e)


def _parse_pattern(p):
    """supported: a literal string without metacharacters, or one atom (literal char or [..] class) followed by +"""
    if isinstance(p, _re.Pattern):
        if p.flags & ~_re.UNICODE:
            raise Unsupported('regex flags on symbolic text')
        p = p.pattern
    if not isinstance(p, str) or tagged(p):
        raise Unsupported('regex pattern')
    meta = set('.^$*+?{}[]\\|()')
    if p and not (set(p) & meta):
        return ('lit', p)
    if p.endswith('+') and len(p) >= 2:
        atom = p[:-1]
        if len(atom) == 1 and atom not in meta:
            return ('plus', ((ord(atom), ord(atom)),))
        if atom[0] == '[' and atom[-1] == ']' and '^' not in atom and '\\' not in atom and '[' not in atom[1:]:
            body = atom[1:-1]
            rs = []
            i = 0
            while i < len(body):
                if i + 2 < len(body) and body[i + 1] == '-':
                    rs.append((ord(body[i]), ord(body[i + 2])))
                    i += 3
                else:
                    rs.append((ord(body[i]), ord(body[i])))
                    i += 1
            return ('plus', tuple(rs))
    raise Unsupported('regex %r outside the modelled family' % p)


def re_finditer(pattern, string, flags=0):
    if not (isinstance(string, str) and tagged(string)):
        return _re.finditer(pattern, string, flags)
    if flags:
        raise Unsupported('regex flags on symbolic text')
    kind, spec = _parse_pattern(pattern)
    text = raw(string)
    n = len(text)
    out = []
    i = 0
    if kind == 'lit':
        m = len(spec)
        while i <= n - m:
            if R.ST.decide(s_eq(text[i:i + m], spec)):
                out.append(_Match(text, i, i + m))
                i += m
            else:
                i += 1
    else:
        while i < n:
            j = i
            while j < n and R.ST.decide(R.ch_in(text[j], spec)):
                j += 1
            if j > i:
                out.append(_Match(text, i, j))
                i = j
            else:
                i += 1
    return iter(out)


EXTRA_MODELS[id(_re.finditer)] = re_finditer
