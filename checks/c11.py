"""C11 verbatim-like environments are opaque."""
PROPERTY = 'C11'


def plan(tier, seed):
    nctx, nfrag = 6, 30
    nmax = 3 if tier == 'quick' else 4
    units = []
    for ci in range(nctx):
        for user in (0, 1) + ((2,) if tier != 'quick' else ()):
            for n in range(0, nmax + 1):
                if user == 2 and n > 2:
                    continue
                units.append(dict(hfile='verbatim.py', fname='c11', args=(ci, 0, n, user), max_paths=300000,
                                  split=(48 if n >= 4 else 12 if n == 3 else 0)))
            for fi in range(1, nfrag):
                for n in ((0, 1) if tier == 'quick' else (0, 1, 2)):
                    if (ci + fi + user) % 2 and tier == 'quick' and fi < 19:
                        continue
                    units.append(dict(hfile='verbatim.py', fname='c11', args=(ci, fi, n, user)))
        units.append(dict(hfile='verbatim.py', fname='c11_without_option', args=(ci,)))
        for n in ((0, 1) if tier == 'quick' else (0, 1, 2)):
            units.append(dict(hfile='verbatim.py', fname='c11_both', args=(ci, n)))
        # user-chosen names that collide with names the parser treats specially
        for nm in ('equation', 'align*', 'math', 'itemize', 'document', 'tabular', 'displaymath'):
            for fi, n in ((0, 2), (3, 1), (4, 1), (14, 1), (11, 1)):
                units.append(dict(hfile='verbatim.py', fname='c11', args=(ci, fi, n, nm)))
    return dict(units=units,
                bounds={'body': 'FREE(0..%d) over all code points except NUL/DEL under the stated side conditions; %d hostile fragments + FREE' % (nmax, nfrag - 1),
                        'names': 'the 5 built-in names; symbolic user names (1%s letters) and user names that collide with math/list environment names, through skip_envs' % ('' if tier == 'quick' else '-2'),
                        'contexts': 'top level, between text, inside one and two named environments (with arguments), after a comment / before math'},
                outside=['verbatim inside groups, arguments or items', 'bodies containing the full closing \\end{name}'],
                assumptions=['side conditions of the statement are assumptions on the symbolic body (first non-blank char not { or [, not ending in a backslash, no % on the last line)'])
