"""C13 (b) offset -> (line, column), (c) regex search offsets."""
from TexSoup import TexSoup
#include oracles.py

LETTERS = [(65, 90), (97, 122)]
SPECIALS = '\\{}$%[]\x00\x7f\r'


def c13_linecol(n):
    s = SX.fresh(n)
    for ch in s:
        SX.assume(SX.ch_in(ch, LETTERS + [(10, 10)]))
    soup = TexSoup(s)
    line = 0
    last = -1
    res = []
    for i in range(n):
        try:
            got = soup.char_pos_to_line(i)
        except Exception as e:
            SX.check(False, 'C13:char_pos_to_line-raises:' + type(e).__name__, lambda: {'source': s, 'offset': i})
            return ('raised',)
        SX.check(got == (line, i - last - 1), 'C13:line-column',
                 lambda: {'sig': 'offset-holds-LF' if s[i] == '\n' else 'other', 'source': s, 'offset': i,
                          'got': repr(got), 'expected': repr((line, i - last - 1))})
        res.append(got)
        if SX.decide(SX.ch_eq(s[i], '\n')):
            line += 1
            last = i
    # the same object queried again in descending and in an interleaved order (no state may leak between lookups)
    order = list(range(n - 1, -1, -1)) + [i for pair in zip(range(0, n, 2), range(n - 1, -1, -2)) for i in pair]
    for i in order:
        SX.check(soup.char_pos_to_line(i) == res[i], 'C13:line-column-depends-on-lookup-order',
                 lambda: {'source': s, 'offset': i, 'expected': repr(res[i])})
    return ('ok', tuple(res))


def T(n):
    s = SX.fresh(n)
    for ch in s:
        SX.assume(SX.Not(SX.ch_among(ch, SPECIALS)))
    return s


RDOCS = [
    lambda a, b: a + 'ab' + b,
    lambda a, b: '\\x{' + a + 'b}' + b + '\n' + 'xab',
    lambda a, b: '\\begin{e}' + a + '\\y[x' + b + ']{ab}' + '\\end{e}x' + a,
    lambda a, b: '$x' + a + '$ ' + b + 'xx',
    lambda a, b: '\\begin{itemize}\\item ' + a + 'b\\item a' + b + '\\end{itemize}',
    lambda a, b: '{' + a + '{b' + b + '}}%ab\n' + a,
    lambda a, b: '\\x{xab}' + a + '\\x{xab}' + b + '\\y{xab}{xab}',
    lambda a, b: '\\begin{itemize}\\item ab x\n\\item ab x\n\\item ' + a + b + '\\end{itemize}',
]


def c13_regex(di, pattern):
    a, b = T(2), T(1)
    src = RDOCS[di](a, b)
    soup = TexSoup(src)
    SX.assume(str(soup) == src)
    try:
        ms = list(soup.search_regex(pattern))
    except Exception as e:
        SX.check(False, 'C13:search_regex-raises:' + type(e).__name__, lambda: {'source': src, 'pattern': pattern, 'error': repr(e)[:200]})
        return ('raised',)
    # expected: for every text leaf in the order of the text view, the matches inside it at leaf offset + match start
    import re as _re
    want = []
    for leaf in soup.text:
        p0 = getattr(leaf, 'position', None)
        for mm in _re.finditer(pattern, leaf):
            want.append((SX.raw(mm.group()), (p0 + mm.start()) if isinstance(p0, int) else None))
    got = [(SX.raw(str(m)), m.position) for m in ms]
    SX.check(got == want, 'C13:regex-matches', lambda: {'source': src, 'pattern': pattern, 'got': repr(got), 'expected': repr(want)})
    out = []
    for m in ms:
        txt = SX.raw(str(m))
        p = m.position
        SX.check(isinstance(p, int) and src[p:p + len(txt)] == txt, 'C13:regex-offset',
                 lambda: {'source': src, 'pattern': pattern, 'match': txt, 'position': p})
        out.append((txt, p))
    return ('ok', tuple(out))
