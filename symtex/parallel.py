"""Process pool over work units.  A unit is a dict of keyword arguments for Session.run_unit."""
import multiprocessing as mp
import os
import sys
import time

_S = None
_SEEN = set()


def _init(root, paths, env):
    global _S
    os.environ.update(env)
    sys.path[:0] = [p for p in paths if p not in sys.path]
    from . import session
    _S = session.Session(root, use_summary=False)


def _run(unit):
    try:
        out = _S.run_unit(**unit)
    except BaseException as e:      # engine errors must reach the driver, not kill the pool
        import traceback
        return {'unit': (os.path.basename(unit['hfile']), unit['fname'], unit['args'], unit.get('start')),
                'engine_error': '%r\n%s' % (e, traceback.format_exc()[-2000:])}
    funcs = set(_S.functions_encoded())
    out['funcs'] = sorted(funcs - _SEEN)
    _SEEN.update(funcs)
    out['summary_info'] = _S.summary_info
    return out


def run_units(units, root=None, workers=None, paths=(), env=None, progress=None):
    workers = workers or min(16, os.cpu_count() or 1)
    workers = max(1, min(workers, len(units)))
    ctx = mp.get_context('spawn')
    t0 = time.time()
    results = []
    with ctx.Pool(workers, initializer=_init, initargs=(root, list(paths), env or {})) as pool:
        for r in pool.imap_unordered(_run, units, chunksize=(1 if len(units) < 2000 else 8)):
            results.append(r)
            if progress is not None:
                progress(r, len(results), len(units))
    return results, time.time() - t0
