"""C20 on string-backed and token-backed buffers: operation sequences against a list + index model."""
from TexSoup.utils import Buffer, Token
import TexSoup.category as _cat
import TexSoup.tokens as _tok
#include oracles.py

FRAMES = [('', ''), ('\\ab{', '}$x$'), ('{', ']\\c '), ('a', '%b\n')]


def text_of(r):
    return SX.raw(str(r)) if r is not None else None


def jtext(items):
    return ''.join([SX.raw(str(x)) for x in items])


def make(kind, n, frame):
    s = SX.fresh(n)
    if kind == 'str':
        src = s
        items = [ch for ch in src]
        pos = list(range(len(src)))
        buf = Buffer(src)
    else:
        pre, post = FRAMES[frame]
        src = pre + s + post
        items = list(_tok.tokenize(_cat.categorize(src)))
        pos = [t.position for t in items]
        buf = Buffer(_tok.tokenize(_cat.categorize(src)))
    return s, src, items, pos, buf


def pred_of(p, s):
    kind, v = p
    if kind == 'eqsym':
        c = s[v % len(s)] if len(s) else 'q'
        return lambda x: x == c
    if kind == 'eq':
        return lambda x: x == v
    if kind == 'starts':
        return lambda x: x.startswith(v)
    if kind == 'in':
        return lambda x: x in v
    if kind == 'len':
        return lambda x: len(x) > v
    raise AssertionError(p)


def c20_seq(kind, n, frame, ops):
    s, src, items, pos, b = make(kind, n, frame)
    N = len(items)
    i = 0
    step = 0
    for op in ops:
        step += 1
        name = op[0]
        tag = 'C20:%s' % name
        det = lambda: {'source': src, 'ops': repr(ops), 'step': step, 'model_cursor': i, 'cursor': b.position}
        try:
            if name == 'next':
                if i < N:
                    r = next(b)
                    SX.check(text_of(r) == SX.raw(str(items[i])), tag + ':item', det)
                    SX.check(kind == 'str' or r.position == pos[i], tag + ':item-position', det)
                    i += 1
                else:
                    try:
                        next(b)
                        SX.check(False, tag + ':no-stopiteration', det)
                    except StopIteration:
                        pass
            elif name == 'forward' or name == 'backward':
                j = op[1]
                lo, hi = (i, i + j) if name == 'forward' else (i - j, i)
                if not (0 <= lo <= hi <= N):
                    continue        # out-of-range move: outside the claim
                r = b.forward(j) if name == 'forward' else b.backward(j)
                SX.check(text_of(r) == jtext(items[lo:hi]), tag + ':items', det)
                if hi > lo:
                    SX.check(kind == 'str' or r.position == pos[lo], tag + ':position', det)
                i = hi if name == 'forward' else lo
            elif name == 'peek':
                j = op[1]
                if i + j < 0:
                    continue
                r = b.peek(j)
                if i + j < N:
                    SX.check(r is not None and text_of(r) == SX.raw(str(items[i + j])), tag + ':item', det)
                else:
                    SX.check(r is None, tag + ':past-end-not-none', det)
            elif name == 'peekr' or name == 'slice':
                a, c = op[1], op[2]
                if name == 'peekr':
                    a, c = i + a, i + c
                    if a < 0 or c < 0:
                        continue
                    r = b.peek((op[1], op[2]))
                else:
                    r = b[a:c]
                SX.check(text_of(r) == jtext(items[a:c]), tag + ':items', det)
            elif name == 'index':
                k = op[1]
                if k < N:
                    SX.check(text_of(b[k]) == SX.raw(str(items[k])), tag + ':item', det)
                else:
                    try:
                        b[k]
                        SX.check(False, tag + ':no-indexerror', det)
                    except IndexError:
                        pass
            elif name == 'hasNext':
                k = op[1]
                SX.check(b.hasNext(k) == (i + k - 1 < N), tag, det)
            elif name == 'startswith':
                w = op[1]
                exp = jtext(items[i:i + len(w)]).startswith(w)
                SX.check(SX.Iff(b.startswith(w), exp), tag, det)
            elif name == 'endswith':
                w = op[1]
                if i - len(w) < 0:
                    continue
                exp = jtext(items[i - len(w):i]).endswith(w)
                SX.check(SX.Iff(b.endswith(w), exp), tag, det)
            elif name == 'forward_until' or name == 'num_forward_until':
                p = pred_of(op[1], s)
                k = i
                while k < N and not p(items[k]):
                    k += 1
                if name == 'forward_until':
                    r = b.forward_until(p)
                    SX.check(text_of(r) == jtext(items[i:k]), tag + ':items', det)
                    i = k
                else:
                    r = b.num_forward_until(p)
                    SX.check(r == k - i, tag + ':count', det)
            else:
                raise AssertionError(op)
        except (StopIteration, IndexError, AttributeError, TypeError, ValueError, AssertionError) as e:
            SX.check(False, tag + ':raises:' + type(e).__name__, lambda: dict(det(), error=repr(e)))
            return ('raised', name)
        SX.check(b.position == i, tag + ':cursor', det)
    return ('ok', i, b.position)

