"""Depth-first exploration of all feasible decision sequences of a harness function."""
import time
import traceback
from . import cond, runtime as R


class PathResult:
    __slots__ = ('status', 'value', 'pc', 'witness', 'nfresh', 'detail', 'violations')

    def __init__(self, status, value=None, pc=None, witness=None, nfresh=0, detail=None):
        self.status, self.value, self.pc, self.witness, self.nfresh, self.detail = \
            status, value, pc, witness, nfresh, detail
        self.violations = []


class Result:
    def __init__(self):
        self.paths = []
        self.wall = 0.0
        self.complete = True
        self.reason = None

    def count(self, status):
        return sum(1 for p in self.paths if p.status == status)


def texsoup_frame(exc):
    """innermost frame inside the code under test, across the cause/context chain"""
    best = None
    e = exc
    seen = set()
    while e is not None and id(e) not in seen:
        seen.add(id(e))
        for fr in traceback.extract_tb(e.__traceback__):
            if '/TexSoup/' in fr.filename:
                best = (type(e).__name__, fr.filename.rsplit('/', 1)[-1], fr.name, (fr.line or '').strip())
        e = e.__cause__ or e.__context__
    return best


def explore(fn, max_paths=10**7, deadline=None, want_witness=True, keep_pc=True, on_path=None, start=None,
            keep_paths=True):
    """Runs fn once per feasible decision sequence.  Statuses:
       ok                fn returned (value = its summary)
       ended             a violated assertion left nothing of the path's cell
       abort             an assumption was infeasible
       hang              step budget exceeded
       unsupported       an unmodelled native operation met symbolic data (run is then incomplete)
       harness-exception an exception escaped the harness"""
    ST = R.ST
    res = Result()
    first = True
    stack = [[(b, None) for b in start]] if start is not None else [[]]
    t0 = time.time()
    npaths = 0
    while stack:
        if npaths >= max_paths:
            res.complete, res.reason = False, 'path budget'
            break
        if deadline is not None and time.time() > deadline:
            res.complete, res.reason = False, 'time budget'
            break
        prefix = stack.pop()
        ST.reset_path(prefix)
        if first:
            ST.report_from = 0
            first = False
        pr = None
        try:
            value = fn()
            pr = PathResult('ok', value)
        except R.PathAbort:
            pr = PathResult('abort')
        except R.PathEnd:
            pr = PathResult('ended')
        except R.Hang:
            pr = PathResult('hang')
        except R.Unsupported as u:
            pr = PathResult('unsupported', str(u), detail=''.join(traceback.format_tb(u.__traceback__)[-3:]))
            res.complete, res.reason = False, 'unsupported: %s' % u
        except R.EngineError:
            raise
        except RecursionError:
            pr = PathResult('harness-exception', 'RecursionError', detail='RecursionError')
        except Exception as e:          # escaped the harness
            pr = PathResult('harness-exception', repr(e), detail=traceback.format_exc())
        stack.extend(ST.pending)
        pr.nfresh = ST.nfresh
        pr.violations = list(ST.violations)
        if keep_pc:
            pr.pc = list(ST.pc)
        if want_witness and pr.status in ('ok', 'hang', 'harness-exception', 'unsupported'):
            pr.witness = ST.model()
        ST.stats.paths += 1
        npaths += 1
        if keep_paths:
            res.paths.append(pr)
        if on_path is not None:
            on_path(pr)
    res.wall = time.time() - t0
    res.npaths = npaths
    return res


def split(fn, want, max_rounds=4000):
    """breadth-first expansion of the decision tree until at least `want` open prefixes exist;
    returns (complete paths as prefixes, open prefixes) - lists of bools.  Every returned prefix is run
    as its own work unit afterwards, so nothing found here is reported from here."""
    ST = R.ST
    open_ = [[]]
    done = []
    rounds = 0
    while open_ and len(open_) < want and rounds < max_rounds:
        rounds += 1
        prefix = open_.pop(0)
        ST.reset_path([(b, None) for b in prefix])
        try:
            fn()
        except BaseException as e:
            if isinstance(e, (R.EngineError, KeyboardInterrupt)):
                raise
        # ST.pending holds, for every fork beyond the prefix, the trace up to it with the last
        # decision flipped; the first of them identifies the first fork after the prefix
        if ST.pending:
            first = ST.pending[0]
            k = len(first) - 1
            base = [v for v, _ in first[:k]]
            open_.append(base + [True])
            open_.append(base + [False])
        else:
            done.append(prefix)
    return done, open_
