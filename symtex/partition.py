"""Partition equivalence between two symbolic runs over the same input space."""
import z3
from . import cond


SYNTACTIC = [0]


def equivalent(run1, run2, nvars):
    """run = list of (dumped path condition, outcome).  For every path of run1, the part of its cell that is
    not covered by run2 paths with the *same* outcome must be empty (decided by z3).  Returns list of
    (index in run1, witness assignment, outcome1, outcomes2 at the witness)."""
    by_out = {}
    pcs2 = []
    for pc, out in run2:
        c = cond.load(pc)
        pcs2.append((c, out))
        by_out.setdefault(out, []).append(c)
    s = z3.Solver()
    for k in range(nvars):
        s.add(cond.domain_z3(k))
    diffs = []
    queries = 0
    try:
        exact = set((pc, out) for pc, out in run2)
    except TypeError:
        exact = set()
    for i, (pc, out) in enumerate(run1):
        try:
            if (pc, out) in exact:      # the identical cell with the identical outcome: trivially covered
                SYNTACTIC[0] += 1
                continue
        except TypeError:
            pass
        c = cond.load(pc)
        same = by_out.get(out, [])
        s.push()
        s.add(cond.to_z3(c))
        if same:
            s.add(z3.Not(z3.Or(*[cond.to_z3(x) for x in same])))
        r = s.check()
        queries += 1
        if r == z3.sat:
            m = s.model()
            a = {k: m.eval(cond.zvar(k), model_completion=True).as_long() for k in range(nvars)}
            others = [o for (c2, o) in pcs2 if cond.evaluate(c2, a)]
            diffs.append((i, a, out, others))
        elif r != z3.unsat:
            diffs.append((i, None, out, 'unknown'))
        s.pop()
    return diffs, queries
