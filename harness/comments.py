"""C10: comments are inert."""
from TexSoup import TexSoup
import TexSoup.category as _cat
import TexSoup.tokens as _tok
from TexSoup.utils import TC
#include oracles.py

SPECIALS = '\\{}$%[]\x00\x7f\r'
CTXS = [
    ('', ''),
    ('\\begin{e}', '\\end{e}'),
    ('\\a[', ']{x}'),
    ('\\a{', '}'),
    ('{', '}'),
    ('\\begin{itemize}\\item ', '\\item b\\end{itemize}'),
    ('$x', 'y$'),
    ('$$x', 'y$$'),
    ('\\(x', 'y\\)'),
    ('\\[x', 'y\\]'),
    ('\\begin{equation}x', 'y\\end{equation}'),
    ('\\begin{itemize}\\item', '\\end{itemize}'),
    ('\\begin{e}[', ']\\end{e}'),
    ('\\c{\\d[', ']}'),
]
NCTX = len(CTXS)
HOSTILE = ['', '\\end{e}', '}', ']', '$', '\\begin{x}', '\\item', '%', '$$', '\\]', '\\)', '{', '[', '\\zz{q}', '\\end{itemize}',
           '\\end{equation}', '\\', '\\\\']


def subst(shape_, old, new):
    if isinstance(shape_, str):
        i = shape_.find(old)
        return shape_ if i < 0 else shape_[:i] + new + shape_[i + len(old):]
    if isinstance(shape_, tuple):
        return tuple([subst(x, old, new) for x in shape_])
    return shape_


def c10_payload(ci, hi, n, eof):
    pay = SX.fresh(n)
    for ch in pay:
        SX.assume(SX.Not(SX.ch_among(ch, '\n\r')))
    payload = HOSTILE[hi] + pay
    pre, post = CTXS[ci]
    if eof:
        if ci != 0:
            return ('skip',)
        src = 'p%' + payload
        benign = 'p%' + 'x' * len(payload)
    else:
        src = pre + 'p%' + payload + '\nr' + post
        benign = pre + 'p%' + 'x' * len(payload) + '\nr' + post
    det = lambda: {'source': src, 'benign': benign}
    ref = TexSoup(benign)
    want = subst(doc_shape(ref), '%' + 'x' * len(payload), '%' + payload)
    try:
        soup = TexSoup(src)
    except Exception as e:
        SX.check(False, 'C10:payload-breaks-parse:' + type(e).__name__, lambda: dict(det(), error=repr(e)[:200]))
        return ('parse-fails',)
    got = doc_shape(soup)
    SX.check(got == want, 'C10:tree-depends-on-payload', lambda: dict(det(), tree=repr(got), expected=repr(want)))
    SX.check(str(soup) == src, 'C10:roundtrip', lambda: dict(det(), output=str(soup)))
    SX.check(len(soup.find_all('zz')) == 0 and len(soup.find_all('x')) == 0, 'C10:comment-searchable', det)
    nn = len([x for x in soup.descendants if isinstance(x, TexNode)])
    nr = len([x for x in ref.descendants if isinstance(x, TexNode)])
    SX.check(nn == nr, 'C10:node-count', lambda: dict(det(), nodes=nn, expected=nr))
    return ('ok', str(soup))


def c10_backslashes(ci, k, n):
    pay = SX.fresh(n)
    for ch in pay:
        SX.assume(SX.Not(SX.ch_among(ch, SPECIALS + '\n')))
    pre, post = CTXS[ci]
    src = pre + 'p' + '\\' * k + '%' + pay + '\nr' + post
    at = len(pre) + 1 + k
    det = lambda: {'source': src, 'backslashes': k}
    try:
        toks = list(_tok.tokenize(_cat.categorize(src)))
        soup = TexSoup(src)
    except Exception as e:
        SX.check(False, 'C10:backslash-parse-fails:' + type(e).__name__, lambda: dict(det(), error=repr(e)[:200]))
        return ('parse-fails',)
    comments = [t for t in toks if t.category == TC.Comment]
    if k % 2 == 0:
        SX.check(len(comments) == 1 and comments[0].position == at and SX.raw(comments[0].text) == '%' + pay,
                 'C10:even-backslashes-comment', lambda: dict(det(), comments=repr(comments)))
    else:
        SX.check(len(comments) == 0, 'C10:odd-backslashes-escaped-percent', lambda: dict(det(), comments=repr(comments)))
        esc = [t for t in toks if SX.raw(t.text) == '\\%' and t.position == at - 1]
        SX.check(len(esc) == 1, 'C10:escaped-percent-token', lambda: dict(det(), tokens=repr(toks)))
    SX.check(str(soup) == src, 'C10:roundtrip', lambda: dict(det(), output=str(soup)))
    return ('ok', str(soup), len(comments))
