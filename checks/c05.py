"""C05 structural edits are local to the targeted node."""
PROPERTY = 'C05'


def plan(tier, seed):
    import sys, os
    ndocs = 16
    docs = list(range(ndocs)) if tier != 'quick' else list(range(ndocs))
    mats_r = ['s1', 'n1', 's2', 'wrap', 'twice'] + (['n3'] if tier != 'quick' else [])
    mats_i = ['s1', 'n1'] + (['n3'] if tier != 'quick' else [])
    units = []
    for di in docs:
        for k in range(6):
            units.append(dict(hfile='edits.py', fname='c05_target', args=(di, k, 'delete', None)))
            units.append(dict(hfile='edits.py', fname='c05_target', args=(di, k, 'remove', None)))
            for m in mats_r:
                units.append(dict(hfile='edits.py', fname='c05_target', args=(di, k, 'replace', m)))
        for k in range(5):
            for i in [None, 0, 1, 2, 3, 4]:
                for m in mats_i:
                    units.append(dict(hfile='edits.py', fname='c05_insert', args=(di, k, i, m)))
    return dict(units=units,
                bounds={'documents': '%d twin-hole templates (argument texts symbolic letters, separator symbolic TEXT(1)): siblings in bodies, env bodies, item label vs body, brace/bracket args, cross-arg, math, groups, twin items/groups/math/envs' % len(docs),
                        'targets': 'every non-root node (first 6 in document order = all)', 'edits': 'delete, parent.remove, replace_with %s, insert at every index 0..len and append with %s' % (mats_r, mats_i)},
                outside=['negative / overshooting insertion indices', 'nodes whose serialisation differs from their source span (whitespace before arguments)', 'documents outside the template set'],
                assumptions=['str(TexSoup(src)) == src on the template (assumed; C01 decides it)', 'span oracle mirrors the serialisers by node identity'])


def signature(v):
    d = v.get('detail') or {}
    return '%s|%s' % (v['label'], d.get('sig', '-')) if isinstance(d, dict) else v['label']
