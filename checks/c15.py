"""C15 any history of edits keeps the tree equal to a reference model."""
import itertools
PROPERTY = 'C15'


def ops_all():
    ops = []
    for k in range(4):
        ops.append(('delete', k))
        ops.append(('remove', k))
        for m in ('s', 'n', 'a') + (('g',) if k < 2 else ()):
            ops.append(('replace', k, m))
        ops.append(('rename', k, 'sym'))
        ops.append(('rename', k, 'a'))
        ops.append(('string', k))
        ops.append(('string', k, 'empty'))
        ops.append(('share', k))
        for h in ('reverse', 'pop0', 'append', 'insert0', 'slice', 'append2'):
            ops.append(('args', k, h))
    for c in range(3):
        for i in range(3):
            for m in ('s', 'n') + (('sn',) if i < 2 else ()):
                ops.append(('insert', c, i, m))
        for m in ('s', 'n', 'a', 'sn', 'g', 'i'):
            ops.append(('append', c, m))
    return ops


def plan(tier, seed):
    ops = ops_all()
    structural = [o for o in ops if o[0] in ('replace', 'insert', 'append') and o[-1] in ('n', 'a', 'sn', 'g', 'i')]
    units = []
    ndocs = 7
    for di in range(ndocs):
        for o in ops:
            units.append(dict(hfile='history.py', fname='c15_history', args=(di, (o,))))
        if tier == 'quick' and (di + seed) % 2:
            pairs = []
        elif tier == 'quick':
            # length 2: every structural edit with node material followed by every edit (incl. edits inside the new material)
            firsts = [o for j, o in enumerate(structural) if (j + di + seed) % 4 == 0]
            pairs = [(f, s) for f in firsts for s in ops]
            others = [o for j, o in enumerate(ops) if o not in structural and (j + di + seed) % 6 == 0]
            pairs += [(f, s) for f in others for j, s in enumerate(ops) if (j + di) % 3 == 0]
        else:
            pairs = list(itertools.product(ops, repeat=2))
        # every addition of node material followed by an edit of exactly the node just added
        for j, f in enumerate(structural):
            if tier == 'quick' and (j + di + seed) % 2:
                continue
            for snd in [('delete-new',), ('remove-new',), ('replace-new', 's'), ('replace-new', 'a')]:
                pairs.append((f, snd))
        # moving a node of the document (delete + append of the same node), then editing it at its new place
        for k in range(4 if tier != 'quick' else 3):
            for c in range(3 if tier != 'quick' else 2):
                units.append(dict(hfile='history.py', fname='c15_history', args=(di, (('move', k, c),))))
                for snd in [('delete-new',), ('replace-new', 's'), ('rename', k, 'sym')]:
                    pairs.append((('move', k, c), snd))
        for p in pairs:
            units.append(dict(hfile='history.py', fname='c15_history', args=(di, p)))
        if tier != 'quick':
            core = [o for j, o in enumerate(structural) if (j + di + seed) % 4 == 0]
            ed = [o for o in ops if o[0] in ('delete', 'replace', 'rename', 'insert') and o[1] in (0, 2, 3)]
            for h in itertools.product(core, ed[::2], ed[1::3]):
                units.append(dict(hfile='history.py', fname='c15_history', args=(di, h)))
    return dict(units=units,
                bounds={'documents': '7 twin-hole documents (argument texts symbolic letters, separator symbolic TEXT(1))',
                        'operations': '%d operation instances: delete / parent.remove / replace_with (string, copied node, possible twin) / rename (symbolic or colliding name) / string / args reverse, pop, append, insert, slice / insert at index 0..2 / append, on the first 4 nodes and 3 containers' % len(ops),
                        'histories': 'all of length 1; length 2: %s%s' % ('structural edits with node material x every operation, (rotating quarter by document and seed, on every second document), plus a rotating ninth of the other pairs; every addition of node material x edit of the node just added, on all documents' if tier == 'quick' else 'all pairs', '' if tier == 'quick' else '; length 3: structural x edit x edit subset'),
                        'material': 'symbolic one-character strings and copies of nodes parsed elsewhere (\\n{\\m{1}}, \\a{H} with symbolic H)'},
                outside=['histories longer than %d' % (2 if tier == 'quick' else 3), 'TexNode.all on edited trees'],
                assumptions=['reference model: nested lists with identity-based edits and a serialiser (harness/history.py)'])


def signature(v):
    return v['label']
