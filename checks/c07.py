"""C07 tolerant mode is a conservative extension that only inserts closers."""
PROPERTY = 'C07'


def plan(tier, seed):
    nmax = 4 if tier == 'quick' else 5
    units = []
    for n in range(0, nmax + 1):
        units.append(dict(hfile='free.py', fname='c07a_free', args=(n,), summary_mode=True,
                          split=(256 if n >= 5 else 96 if n == 4 else (8 if n == 3 else 0))))
    from vt import faultplan
    units += faultplan.fault_units(tier, seed)
    units += faultplan.closer_units(tier, seed)
    return dict(units=units,
                bounds={'faulted_documents': 'every truncation (+ one free character), substitution of one position by a free character, insertion of a free character, deletion and adjacent transposition at every position of %d base documents (<= 40 / 60 characters)' % len(faultplan.base_docs(tier, seed)), 'deleted_closers': 'every single closer (}, ] of an argument where no later ] re-balances, \\end{name}) of every 3rd skeleton variant without math/verbatim/list', 'free_strings': '(a) strict ok => tolerant identical: every string of length 0..%d over all code points' % nmax},
                outside=['strings longer than %d characters' % nmax],
                assumptions=[])


def signature(v):
    d = v.get('detail') or {}
    if isinstance(d, dict) and d.get('sig'):
        return '%s|%s' % (v['label'], d['sig'])
    return v['label']
