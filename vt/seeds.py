"""C17 (b): explore the same input spaces in fresh interpreters under different PYTHONHASHSEED values and decide
partition equivalence of the outcomes with z3 (symtex/partition.py)."""
import json
import os
import pickle
import subprocess
import sys
import tempfile
import time

VERIF = os.path.dirname(os.path.dirname(os.path.abspath(__file__)))
REPO = os.environ.get('VERIF_REPO', '/repo')
sys.path.insert(0, VERIF)


# concrete sizing inputs that share commands with one another (hits, near misses, repeats): a parse must not depend on
# which of them was parsed before
FIXED_INPUTS = ['$\\left\\{a\\right\\}$', '$x\\left\\{b\\right\\}y$', '\\left\\langle a\\right\\rangle', '$\\left\\langle b\\right\\rangle$',
                '\\right\\|\\right\\}', '\\big\\{\\big\\}', '\\left\\lvert x\\right\\rvert', '$\\Bigg(\\Bigg)\\Bigg($', '\\cup\\infty{x}\\cup']


def jobs(tier):
    js = []
    for pi in range(6):
        js.append(('c17_size', (pi, 2), 2))
        js.append(('c17_size_math', (pi, 2), 2))
    js.append(('c17_free', (3,), 3))
    for text in overlap_inputs() + FIXED_INPUTS:
        js.append(('c17_const', (text,), 0))
    from vt import cover
    docs, _ = cover.cover_docs('quick', 0)
    step = 29 if tier == 'quick' else 7
    for di in range(0, len(docs), step):
        for v in cover.variants(docs[di], di)[:1]:
            js.append(('c17_doc', (v,), None))
    return js


def overlap_inputs():
    """inputs derived from the *current* sizing-command table: every entry that has another entry as a proper prefix
    (the first-match scan over the set is order dependent exactly there)"""
    import importlib
    if REPO not in sys.path:
        sys.path.insert(0, REPO)
    try:
        tok = importlib.import_module('TexSoup.tokens')
        table = sorted(getattr(tok, 'PUNCTUATION_COMMANDS', ()))
    except Exception:
        return []
    out = []
    for q in table:
        if any(p != q and q.startswith(p) for p in table):
            out.append('$a\\' + q + ' b$')
            out.append('\\' + q + 'x')
    return out[:60]


def worker(outfile, tier, part, nparts, reverse=False):
    """runs in a fresh interpreter whose hash seed is fixed by the environment"""
    sys.path[:0] = [VERIF, REPO]
    from symtex import session, cond, runtime as R, explore as X
    S = session.Session(use_summary=True)
    sym, con = S.load(os.path.join(VERIF, 'harness', 'isolation.py'))
    R.ST.active = 'C17'
    out = {}
    stats0 = R.ST.stats.as_dict()
    todo = [(ji, j) for ji, j in enumerate(jobs(tier)) if ji % nparts == part]
    if reverse:
        todo.reverse()          # the same jobs in the opposite order: state leaking between parses shows as a difference
    for ji, (fname, args, nv) in todo:
        fn = getattr(sym, fname)
        res = X.explore(lambda: fn(*args), want_witness=False)
        if not res.complete or any(p.status not in ('ok', 'abort') for p in res.paths):
            out[ji] = ('incomplete', [(p.status, str(p.value)[:200]) for p in res.paths if p.status not in ('ok', 'abort')][:3], (fname, args))
            continue
        out[ji] = ('ok', [(cond.dump(cond.And(*p.pc)), p.value, p.nfresh) for p in res.paths if p.status == 'ok'], (fname, args))
    st = R.ST.stats.as_dict()
    with open(outfile, 'wb') as f:
        pickle.dump({'runs': out, 'stats': {k: st[k] - stats0[k] for k in st}, 'funcs': S.functions_encoded()}, f)


def native_outcome(text, seed):
    code = ('import sys; sys.path.insert(0, %r); from TexSoup import TexSoup\n'
            'try:\n    s = TexSoup(%r); print(repr(("ok", str(s), repr(s.expr))))\n'
            'except Exception as e:\n    print(repr(("exc", type(e).__name__)))\n') % (REPO, text)
    r = subprocess.run(['/venv/bin/python', '-c', code], env=dict(os.environ, PYTHONHASHSEED=str(seed)),
                       capture_output=True, text=True, timeout=60)
    return r.stdout.strip()


def native_outcome_after_others(text, tier):
    """the same parse in a fresh interpreter, but after the concrete inputs of the job list have been parsed"""
    others = [a[0] for f, a, _ in jobs(tier) if f == 'c17_const'] + ['\\right\\|', '\\left\\lvert x', '\\big\\x', '\\Bigg\\\\']
    code = ('import sys; sys.path.insert(0, %r); from TexSoup import TexSoup\n'
            'for o in %r:\n'
            '    try: TexSoup(o)\n'
            '    except Exception: pass\n'
            'try:\n    s = TexSoup(%r); print(repr(("ok", str(s), repr(s.expr))))\n'
            'except Exception as e:\n    print(repr(("exc", type(e).__name__)))\n') % (REPO, others, text)
    r = subprocess.run(['/venv/bin/python', '-c', code], env=dict(os.environ, PYTHONHASHSEED='0'),
                       capture_output=True, text=True, timeout=120)
    return r.stdout.strip()


def post(tier, seed, log):
    from symtex import partition, cond
    t0 = time.time()
    seeds = [0, 1, 2, 3, 42] if tier == 'quick' else [0, 1, 2, 3, 4, 5, 6, 7, 42, 1000 + seed]
    nparts = 3 if tier == 'quick' else 1
    tmp = tempfile.mkdtemp(prefix='c17seeds_', dir=os.path.join(VERIF, '.cache') if os.path.isdir(os.path.join(VERIF, '.cache')) else None)
    procs = []
    REV = -1        # pseudo seed: hash seed 0, jobs in reversed order
    for s in seeds + [REV]:
        for part in range(nparts):
            out = os.path.join(tmp, 'seed%d_%d.pkl' % (s, part))
            env = dict(os.environ, PYTHONHASHSEED=str(max(s, 0)))
            p = subprocess.Popen([sys.executable, '-c',
                                  'import sys; sys.path.insert(0, %r); from vt import seeds; seeds.worker(%r, %r, %d, %d, %r)' % (VERIF, out, tier, part, nparts, s == REV)],
                                 env=env, cwd=VERIF)
            procs.append((s, part, out, p))
    problems, viols = [], []
    runs = {}
    stats = {}
    funcs = set()
    for s, part, out, p in procs:
        rc = p.wait()
        if rc != 0 or not os.path.exists(out):
            problems.append('hash-seed worker for seed %d part %d failed (rc %s)' % (s, part, rc))
            continue
        with open(out, 'rb') as f:
            d = pickle.load(f)
        os.remove(out)
        runs.setdefault(s, {}).update(d['runs'])
        funcs.update(d['funcs'])
        for k, v in d['stats'].items():
            stats[k] = stats.get(k, 0) + v
    try:
        os.rmdir(tmp)
    except OSError:
        pass
    # the job list is taken from the seed-0 workers (they enumerate it from the tree under test)
    js = [runs[0][ji][2] + (None,) for ji in sorted(runs.get(0, {}))]
    jix = sorted(runs.get(0, {}))
    queries = 0
    paths = 0
    samples = []
    if 0 in runs:
        for s in seeds[1:] + [REV]:
            if s not in runs:
                continue
            for ji, (fname, args, nv) in zip(jix, js):
                r0, r1 = runs[0].get(ji), runs[s].get(ji)
                if r1 is not None and r1[2] != r0[2]:
                    problems.append('hash-seed workers enumerated different jobs (%r vs %r)' % (r0[2][0], r1[2][0]))
                    continue
                if r0 is None or r1 is None or r0[0] != 'ok' or r1[0] != 'ok':
                    problems.append('hash-seed job %s%r incomplete under seed 0 or %d: %r' % (fname, str(args)[:80], s, (r0 and r0[1][:1], r1 and r1[1][:1]) if (r0 and r0[0] != 'ok') or (r1 and r1[0] != 'ok') else 'missing'))
                    continue
                n = max([p[2] for p in r0[1]] + [p[2] for p in r1[1]] + [0])
                a = [(pc, out) for pc, out, _ in r0[1]]
                b = [(pc, out) for pc, out, _ in r1[1]]
                paths += len(b) + (len(a) if s == seeds[1] else 0)
                for x, y, dirn in ((a, b, '0->%d' % s), (b, a, '%d->0' % s)):
                    diffs, q = partition.equivalent(x, y, n)
                    queries += q
                    for i, asg, o1, o2 in diffs[:3]:
                        if asg is None:
                            problems.append('solver unknown in partition equivalence %s %s' % (fname, dirn))
                            continue
                        viols.append((fname, args, s, asg, o1, o2))
            if len(samples) < 3:
                samples.append({'seed_pair': [0, s], 'jobs_compared': len(js), 'verdict': 'partition-equivalent' if not viols else 'differs'})
    else:
        problems.append('no run under seed 0')
    # confirm each difference natively in two fresh interpreters
    out_v = []
    seen = set()
    for fname, args, s, asg, o1, o2 in viols:
        text = witness_text(fname, args, asg)
        if text in seen:
            continue
        seen.add(text)
        n0 = native_outcome(text, 0)
        n1 = native_outcome(text, s) if s >= 0 else native_outcome_after_others(text, tier)
        if n0 != n1:
            out_v.append({'label': 'C17:hash-seed-dependence', 'vals': [ord(c) for c in text],
                          'detail': {'sig': 'sizing-delimiter-overlap' if '.|' in text else ('parse-order-dependence' if s < 0 else 'other'), 'input': text, 'seeds': [0, s], 'seed0': n0[:300], 'seedN': n1[:300]},
                          'unit': ('isolation.py', 'native_seed_compare', (text, s), None)})
        else:
            problems.append('hash-seed difference for %r (seeds 0/%d) did not reproduce natively' % (text, s))
    ev = {'hash_seeds': seeds, 'job_orders': 'seed 0 explored in forward and in reversed job order (fresh interpreters), compared by partition equivalence', 'hash_seed_jobs': len(js), 'partition_queries': queries, 'partition_cells_identical': partition.SYNTACTIC[0], 'hash_seed_paths': paths,
          'hash_seed_solver_calls': stats.get('solver_calls', 0), 'hash_seed_wall_s': round(time.time() - t0, 1),
          'hash_seed_samples': samples}
    return {'violations': out_v, 'problems': problems, 'evidence': ev, 'paths': paths, 'decisions': stats.get('decisions', 0),
            'funcs': sorted(funcs)}


def witness_text(fname, args, asg):
    vals = ''.join(chr(asg[k]) for k in sorted(asg))
    SIZES = ('left', 'right', 'big', 'Big', 'bigg', 'Bigg')
    if fname == 'c17_size':
        return '\\' + SIZES[args[0]] + vals
    if fname == 'c17_size_math':
        return '$\\' + SIZES[args[0]] + vals + 'a$'
    if fname == 'c17_free':
        return vals
    if fname == 'c17_const':
        return args[0]
    # skeleton document: instantiate concretely with the model's characters
    from symtex import api, skeleton as K
    sx = api.ConcreteSX([asg[k] for k in sorted(asg)])
    d = K.instantiate(args[0], sx)
    return K.doc_src(d)
