"""C13 (b) offset -> (line, column), (c) regex search offsets."""
from TexSoup import TexSoup
#include oracles.py

LETTERS = [(65, 90), (97, 122)]
SPECIALS = '\\{}$%[]\x00\x7f\r'


def c13_linecol(n):
    s = SX.fresh(n)
    for ch in s:
        SX.assume(SX.ch_in(ch, LETTERS + [(10, 10)]))
    soup = TexSoup(s)
    line = 0
    last = -1
    res = []
    for i in range(n):
        try:
            got = soup.char_pos_to_line(i)
        except Exception as e:
            SX.check(False, 'C13:char_pos_to_line-raises:' + type(e).__name__, lambda: {'source': s, 'offset': i})
            return ('raised',)
        SX.check(got == (line, i - last - 1), 'C13:line-column',
                 lambda: {'sig': 'offset-holds-LF' if s[i] == '\n' else 'other', 'source': s, 'offset': i,
                          'got': repr(got), 'expected': repr((line, i - last - 1))})
        res.append(got)
        if SX.decide(SX.ch_eq(s[i], '\n')):
            line += 1
            last = i
    return ('ok', tuple(res))


def T(n):
    s = SX.fresh(n)
    for ch in s:
        SX.assume(SX.Not(SX.ch_among(ch, SPECIALS)))
    return s


RDOCS = [
    lambda a, b: a + 'ab' + b,
    lambda a, b: '\\x{' + a + 'b}' + b + '\n' + 'xab',
    lambda a, b: '\\begin{e}' + a + '\\y[x' + b + ']{ab}' + '\\end{e}x' + a,
    lambda a, b: '$x' + a + '$ ' + b + 'xx',
    lambda a, b: '\\begin{itemize}\\item ' + a + 'b\\item a' + b + '\\end{itemize}',
    lambda a, b: '{' + a + '{b' + b + '}}%ab\n' + a,
]


def c13_regex(di, pattern):
    a, b = T(2), T(1)
    src = RDOCS[di](a, b)
    soup = TexSoup(src)
    SX.assume(str(soup) == src)
    try:
        ms = list(soup.search_regex(pattern))
    except Exception as e:
        SX.check(False, 'C13:search_regex-raises:' + type(e).__name__, lambda: {'source': src, 'pattern': pattern, 'error': repr(e)[:200]})
        return ('raised',)
    out = []
    for m in ms:
        txt = SX.raw(str(m))
        p = m.position
        SX.check(isinstance(p, int) and src[p:p + len(txt)] == txt, 'C13:regex-offset',
                 lambda: {'source': src, 'pattern': pattern, 'match': txt, 'position': p})
        out.append((txt, p))
    return ('ok', tuple(out))
