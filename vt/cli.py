"""usage: python -m vt.cli <check> <quick|thorough>   |   python -m vt.cli --replay <file>"""
import os
import sys

VERIF = os.path.dirname(os.path.dirname(os.path.abspath(__file__)))
sys.path.insert(0, VERIF)


def main(argv):
    from vt import runner
    if len(argv) >= 2 and argv[0] == '--replay':
        return runner.replay(argv[1])
    if len(argv) >= 1 and argv[0] == 'selftest':
        from vt import selftest
        return selftest.main(argv[1:])
    name = argv[0].lower()
    tier = argv[1] if len(argv) > 1 else os.environ.get('VERIF_TIER', 'quick')
    seed = int(os.environ.get('VERIF_SEED', '0') or 0)
    workers = int(os.environ.get('VERIF_WORKERS', '0') or 0) or None
    mod = name if not name.startswith('c') or not name[1:].isdigit() else name
    if name == 'c20':
        from vt import xh
        return xh.run_check(tier, seed)
    return runner.run_check(mod, tier, seed, workers=workers)


if __name__ == '__main__':
    try:
        rc = main(sys.argv[1:])
    except SystemExit:
        raise
    except BaseException as e:          # an engine failure is inconclusive (2), never a verdict
        import traceback
        traceback.print_exc()
        print('INCONCLUSIVE: the checker itself failed: %r' % (e,), flush=True)
        rc = 2
    sys.exit(rc)
