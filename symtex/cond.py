"""Hash-consed conditions over symbolic characters, with memoised translation to z3.

A condition is either a Python bool or an interned `C` object.  Atoms:
  eqc(k, v)      character variable k equals code point v
  eqv(k1, k2)    two character variables are equal
  rng(k, R)      character variable k lies in one of the closed ranges R (tuple of (lo, hi))
Connectives: And, Or, Not (with constant folding, flattening, de-duplication).
Interning makes structural equality identity, so ids are stable cache keys.
"""
import z3

MAXCP = 0x10FFFF


class C:
    __slots__ = ('op', 'args', 'vars', '_z3', '__weakref__')

    def __init__(self, op, args, vars_):
        self.op = op
        self.args = args
        self.vars = vars_
        self._z3 = None

    def __bool__(self):
        raise TypeError('condition used as a Python bool (engine bug)')

    def __repr__(self):
        return show(self)


_INTERN = {}
_VARS = {}


def _mk(op, args, vars_):
    key = (op, args)
    c = _INTERN.get(key)
    if c is None:
        c = _INTERN[key] = C(op, args, vars_)
    return c


def zvar(k):
    v = _VARS.get(k)
    if v is None:
        v = _VARS[k] = z3.Int('c%d' % k)
    return v


def eqc(k, v):
    if not (0 <= v <= MAXCP):
        return False
    return _mk('eqc', (k, v), frozenset((k,)))


def eqv(a, b):
    if a == b:
        return True
    if a > b:
        a, b = b, a
    return _mk('eqv', (a, b), frozenset((a, b)))


def norm_ranges(ranges):
    rs = sorted((max(0, lo), min(MAXCP, hi)) for lo, hi in ranges if lo <= hi)
    out = []
    for lo, hi in rs:
        if lo > hi:
            continue
        if out and lo <= out[-1][1] + 1:
            out[-1] = (out[-1][0], max(out[-1][1], hi))
        else:
            out.append((lo, hi))
    return tuple(out)


def rng(k, ranges):
    rs = norm_ranges(ranges)
    if not rs:
        return False
    if rs == ((0, MAXCP),):
        return True
    if len(rs) == 1 and rs[0][0] == rs[0][1]:
        return eqc(k, rs[0][0])
    return _mk('rng', (k, rs), frozenset((k,)))


def _single(c):
    """variable index if c is an atom over exactly one variable expressed as ranges, else None"""
    if c.op == 'eqc' or c.op == 'rng':
        return c.args[0]
    return None


def _rs(c):
    return ((c.args[1], c.args[1]),) if c.op == 'eqc' else c.args[1]


def _complement(rs):
    out = []
    prev = 0
    for lo, hi in rs:
        if lo > prev:
            out.append((prev, lo - 1))
        prev = hi + 1
    if prev <= MAXCP:
        out.append((prev, MAXCP))
    return tuple(out)


def _intersect(a, b):
    out = []
    i = j = 0
    while i < len(a) and j < len(b):
        lo = max(a[i][0], b[j][0])
        hi = min(a[i][1], b[j][1])
        if lo <= hi:
            out.append((lo, hi))
        if a[i][1] < b[j][1]:
            i += 1
        else:
            j += 1
    return tuple(out)


def Not(c):
    if c is True:
        return False
    if c is False:
        return True
    if c.op == 'not':
        return c.args[0]
    k = _single(c)
    if k is not None:
        # single-variable atoms are kept in range normal form (a syntactic normalisation, not a decision)
        return rng(k, _complement(_rs(c)))
    return _mk('not', (c,), c.vars)


def _flatten(op, cs, absorbing):
    out = []
    seen = set()
    for c in cs:
        if c is absorbing:
            return None
        if c is (not absorbing):
            continue
        if isinstance(c, bool):
            # c == (not absorbing) handled above; c == absorbing handled above
            continue
        parts = c.args if c.op == op else (c,)
        for p in parts:
            if id(p) in seen:
                continue
            seen.add(id(p))
            out.append(p)
    return out


def And(*cs):
    out = _flatten('and', cs, False)
    if out is None:
        return False
    ids = {id(c) for c in out}
    for c in out:
        if c.op == 'not' and id(c.args[0]) in ids:
            return False
    if not out:
        return True
    if len(out) == 1:
        return out[0]
    # merge single-variable atoms per variable
    per = {}
    rest = []
    for c in out:
        k = _single(c)
        if k is None:
            rest.append(c)
        elif k in per:
            per[k] = _intersect(per[k], _rs(c))
        else:
            per[k] = _rs(c)
    merged = []
    for k, rs in per.items():
        a = rng(k, rs)
        if a is False:
            return False
        if a is not True:
            merged.append(a)
    out = merged + rest
    if not out:
        return True
    if len(out) == 1:
        return out[0]
    vs = frozenset().union(*[c.vars for c in out])
    return _mk('and', tuple(out), vs)


def Or(*cs):
    out = _flatten('or', cs, True)
    if out is None:
        return True
    ids = {id(c) for c in out}
    for c in out:
        if c.op == 'not' and id(c.args[0]) in ids:
            return True
    if not out:
        return False
    if len(out) == 1:
        return out[0]
    per = {}
    rest = []
    for c in out:
        k = _single(c)
        if k is None:
            rest.append(c)
        else:
            per.setdefault(k, []).extend(_rs(c))
    merged = []
    for k, rs in per.items():
        a = rng(k, rs)
        if a is True:
            return True
        if a is not False:
            merged.append(a)
    out = merged + rest
    if not out:
        return False
    if len(out) == 1:
        return out[0]
    vs = frozenset().union(*[c.vars for c in out])
    return _mk('or', tuple(out), vs)


def to_z3(c):
    if c is True:
        return z3.BoolVal(True)
    if c is False:
        return z3.BoolVal(False)
    z = c._z3
    if z is not None:
        return z
    op = c.op
    if op == 'eqc':
        z = zvar(c.args[0]) == c.args[1]
    elif op == 'eqv':
        z = zvar(c.args[0]) == zvar(c.args[1])
    elif op == 'rng':
        v = zvar(c.args[0])
        parts = [(v == lo) if lo == hi else z3.And(v >= lo, v <= hi) for lo, hi in c.args[1]]
        z = parts[0] if len(parts) == 1 else z3.Or(*parts)
    elif op == 'not':
        z = z3.Not(to_z3(c.args[0]))
    elif op == 'and':
        z = z3.And(*[to_z3(a) for a in c.args])
    elif op == 'or':
        z = z3.Or(*[to_z3(a) for a in c.args])
    else:
        raise AssertionError(op)
    c._z3 = z
    return z


def domain_z3(k):
    v = zvar(k)
    return z3.And(v >= 0, v <= MAXCP)


_RENAME = {}


def rename(c, mapping_key, mapping):
    """structural renaming of variables; mapping_key is a hashable id of the mapping"""
    if isinstance(c, bool):
        return c
    key = (id(c), mapping_key)
    r = _RENAME.get(key)
    if r is not None:
        return r
    op = c.op
    if op == 'eqc':
        r = eqc(mapping.get(c.args[0], c.args[0]), c.args[1])
    elif op == 'eqv':
        r = eqv(mapping.get(c.args[0], c.args[0]), mapping.get(c.args[1], c.args[1]))
    elif op == 'rng':
        r = rng(mapping.get(c.args[0], c.args[0]), c.args[1])
    elif op == 'not':
        r = Not(rename(c.args[0], mapping_key, mapping))
    elif op == 'and':
        r = And(*[rename(a, mapping_key, mapping) for a in c.args])
    else:
        r = Or(*[rename(a, mapping_key, mapping) for a in c.args])
    _RENAME[key] = r
    return r


def evaluate(c, assignment):
    """concrete evaluation under {k: code point}"""
    if isinstance(c, bool):
        return c
    op = c.op
    if op == 'eqc':
        return assignment[c.args[0]] == c.args[1]
    if op == 'eqv':
        return assignment[c.args[0]] == assignment[c.args[1]]
    if op == 'rng':
        v = assignment[c.args[0]]
        return any(lo <= v <= hi for lo, hi in c.args[1])
    if op == 'not':
        return not evaluate(c.args[0], assignment)
    if op == 'and':
        return all(evaluate(a, assignment) for a in c.args)
    return any(evaluate(a, assignment) for a in c.args)


def show(c):
    if isinstance(c, bool):
        return str(c)
    op = c.op
    if op == 'eqc':
        return 'c%d==%s' % (c.args[0], _cp(c.args[1]))
    if op == 'eqv':
        return 'c%d==c%d' % c.args
    if op == 'rng':
        return 'c%d in {%s}' % (c.args[0], ','.join(_cp(lo) if lo == hi else '%s-%s' % (_cp(lo), _cp(hi))
                                                     for lo, hi in c.args[1][:6]) + (',…' if len(c.args[1]) > 6 else ''))
    if op == 'not':
        return '!(%s)' % show(c.args[0])
    return '(' + (' & ' if op == 'and' else ' | ').join(show(a) for a in c.args) + ')'


def _cp(v):
    ch = chr(v)
    if 33 <= v < 127:
        return repr(ch)
    return 'U+%04X' % v


def dump(c):
    """picklable structural form"""
    if isinstance(c, bool):
        return c
    if c.op in ('eqc', 'eqv', 'rng'):
        return (c.op,) + tuple(c.args)
    return (c.op,) + tuple(dump(a) for a in c.args)


def load(t):
    if isinstance(t, bool):
        return t
    op = t[0]
    if op == 'eqc':
        return eqc(t[1], t[2])
    if op == 'eqv':
        return eqv(t[1], t[2])
    if op == 'rng':
        return rng(t[1], t[2])
    if op == 'not':
        return Not(load(t[1]))
    if op == 'and':
        return And(*[load(x) for x in t[1:]])
    return Or(*[load(x) for x in t[1:]])
