"""C08 serialisation conserves the characters of any parseable input."""
PROPERTY = 'C08'


def plan(tier, seed):
    nmax = 4 if tier == 'quick' else 5
    units = []
    for n in range(0, nmax + 1):
        units.append(dict(hfile='free.py', fname='c08_free', args=(n, 'C08'), summary_mode=True,
                          split=(256 if n >= 5 else 96 if n == 4 else (8 if n == 3 else 0))))
    return dict(units=units,
                bounds={'free_strings': 'every string of length 0..%d over all code points except NUL/DEL, not containing \\def' % nmax},
                outside=['strings longer than %d characters' % nmax],
                assumptions=['oracle: output = input with only blank runs (space, tab, LF, CR) deleted that are directly followed by { or ['])
