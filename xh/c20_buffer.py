"""CrossHair contracts over the real TexSoup.utils.Buffer (C20): one inductive step per operation.

Pre-state: arbitrary int sequence `seq` (len <= N), `q` items already materialised, cursor `i`, with the
representation invariant 0 <= i <= q <= len(seq); every such state is constructed through the public API
(next x i, then one peek that materialises q items - step_reach), so a counterexample is a real history.  One operation with symbolic arguments; the postcondition compares the returned
items and the cursor with a plain list + index and re-establishes the invariant.
"""
import os
from typing import List, Tuple
from TexSoup.utils import Buffer

N = int(os.environ.get('C20_MAXLEN', '4'))
A = int(os.environ.get('C20_MAXARG', '6'))


class L(list):
    """list that can be accumulated with `'' + L` (num_forward_until starts from an empty str)"""

    def __radd__(self, other):
        return L(list(other) + list(self))

    def __add__(self, other):
        return L(list(self) + list(other))


def mk(seq, q, i):
    """state (q items materialised, cursor i) reached through the public API only"""
    b = Buffer(seq, join=lambda x: L(x), empty=lambda: L(), init=lambda c, idx: c)
    for _ in range(i):
        next(b)
    if q > i:
        b.peek(q - 1 - i)
    return b


def queue(b):
    """materialised prefix, if the implementation keeps it where the current one does (only used to state the
    representation invariant; a refactoring that renames it must not raise an alarm)"""
    return getattr(b, '_Buffer__queue', None)


def qlen(b):
    q = queue(b)
    return None if q is None else len(q)


def inv(b, seq):
    q = queue(b)
    if q is None:
        return 0 <= b.position <= len(seq)
    return 0 <= b.position <= len(seq) and b.position <= len(q) <= len(seq) and list(q) == seq[:len(q)]


def step_next(seq: List[int], q: int, i: int) -> bool:
    """
    pre: len(seq) <= N
    pre: 0 <= i <= q <= len(seq)
    post: _
    """
    b = mk(seq, q, i)
    try:
        r = next(b)
    except StopIteration:
        return i >= len(seq) and b.position == i and inv(b, seq)
    return i < len(seq) and r == seq[i] and b.position == i + 1 and inv(b, seq)


def step_forward(seq: List[int], q: int, i: int, j: int) -> bool:
    """
    pre: len(seq) <= N
    pre: 0 <= i <= q <= len(seq)
    pre: -i <= j <= len(seq) - i
    post: _
    """
    b = mk(seq, q, i)
    r = b.forward(j)
    lo, hi = (i, i + j) if j >= 0 else (i + j, i)
    return list(r) == seq[lo:hi] and b.position == i + j and inv(b, seq)


def step_backward(seq: List[int], q: int, i: int, j: int) -> bool:
    """
    pre: len(seq) <= N
    pre: 0 <= i <= q <= len(seq)
    pre: i - len(seq) <= j <= i
    post: _
    """
    b = mk(seq, q, i)
    r = b.backward(j)
    lo, hi = (i - j, i) if j >= 0 else (i, i - j)
    return list(r) == seq[lo:hi] and b.position == i - j and inv(b, seq)


def step_peek(seq: List[int], q: int, i: int, j: int) -> bool:
    """
    pre: len(seq) <= N
    pre: 0 <= i <= q <= len(seq)
    pre: -i <= j <= A
    post: _
    """
    b = mk(seq, q, i)
    r = b.peek(j)
    exp = seq[i + j] if i + j < len(seq) else None
    return r == exp and (r is None) == (i + j >= len(seq)) and b.position == i and inv(b, seq)


def step_peekrange(seq: List[int], q: int, i: int, a: int, c: int) -> bool:
    """
    pre: len(seq) <= N
    pre: 0 <= i <= q <= len(seq)
    pre: -i <= a <= A and -i <= c <= A
    post: _
    """
    b = mk(seq, q, i)
    r = b.peek((a, c))
    return list(r) == seq[i + a:i + c] and b.position == i and inv(b, seq)


def step_getitem(seq: List[int], q: int, i: int, k: int) -> bool:
    """
    pre: len(seq) <= N
    pre: 0 <= i <= q <= len(seq)
    pre: 0 <= k <= A + N
    post: _
    """
    b = mk(seq, q, i)
    try:
        r = b[k]
    except IndexError:
        return k >= len(seq) and b.position == i and inv(b, seq)
    return k < len(seq) and r == seq[k] and b.position == i and inv(b, seq)


def step_slice(seq: List[int], q: int, i: int, a: int, c: int) -> bool:
    """
    pre: len(seq) <= N
    pre: 0 <= i <= q <= len(seq)
    pre: 0 <= a <= A + N and 0 <= c <= A + N
    post: _
    """
    b = mk(seq, q, i)
    r = b[a:c]
    return list(r) == seq[a:c] and b.position == i and inv(b, seq)


def step_slice_open(seq: List[int], q: int, i: int, a: int) -> bool:
    """
    pre: len(seq) <= N
    pre: 0 <= i <= q <= len(seq)
    pre: 0 <= a <= A + N
    post: _
    """
    b = mk(seq, q, i)
    r = b[a:]
    return list(r) == seq[a:] and b.position == i and qlen(b) in (None, len(seq)) and inv(b, seq)


def step_hasnext(seq: List[int], q: int, i: int, n: int) -> bool:
    """
    pre: len(seq) <= N
    pre: all(x != 0 for x in seq)
    pre: 0 <= i <= q <= len(seq)
    pre: 1 <= n <= A
    post: _
    """
    b = mk(seq, q, i)
    r = b.hasNext(n)
    return r == (i + n - 1 < len(seq)) and b.position == i and inv(b, seq)


def step_reach(seq: List[int], q: int, i: int) -> bool:
    """
    every pre-state assumed by the step contracts is reached through the public API (next x i, one peek)
    pre: len(seq) <= N
    pre: 0 <= i <= q <= len(seq)
    post: _
    """
    b = mk(seq, q, i)
    return b.position == i and qlen(b) in (None, q) and inv(b, seq)


STEPS = ['step_next', 'step_forward', 'step_backward', 'step_peek', 'step_peekrange', 'step_getitem', 'step_slice',
         'step_slice_open', 'step_hasnext', 'step_reach']


# ---- reachability twins: same preconditions, postcondition False; CrossHair must refute each of them
# (generated from the contracts above: same signature and preconditions, body = call + `return False`)


def twin_step_next(seq: List[int], q: int, i: int) -> bool:
    """
    pre: len(seq) <= N
    pre: 0 <= i <= q <= len(seq)
    post: _
    """
    step_next(seq, q, i)
    return False


def twin_step_forward(seq: List[int], q: int, i: int, j: int) -> bool:
    """
    pre: len(seq) <= N
    pre: 0 <= i <= q <= len(seq)
    pre: -i <= j <= len(seq) - i
    post: _
    """
    step_forward(seq, q, i, j)
    return False


def twin_step_backward(seq: List[int], q: int, i: int, j: int) -> bool:
    """
    pre: len(seq) <= N
    pre: 0 <= i <= q <= len(seq)
    pre: i - len(seq) <= j <= i
    post: _
    """
    step_backward(seq, q, i, j)
    return False


def twin_step_peek(seq: List[int], q: int, i: int, j: int) -> bool:
    """
    pre: len(seq) <= N
    pre: 0 <= i <= q <= len(seq)
    pre: -i <= j <= A
    post: _
    """
    step_peek(seq, q, i, j)
    return False


def twin_step_peekrange(seq: List[int], q: int, i: int, a: int, c: int) -> bool:
    """
    pre: len(seq) <= N
    pre: 0 <= i <= q <= len(seq)
    pre: -i <= a <= A and -i <= c <= A
    post: _
    """
    step_peekrange(seq, q, i, a, c)
    return False


def twin_step_getitem(seq: List[int], q: int, i: int, k: int) -> bool:
    """
    pre: len(seq) <= N
    pre: 0 <= i <= q <= len(seq)
    pre: 0 <= k <= A + N
    post: _
    """
    step_getitem(seq, q, i, k)
    return False


def twin_step_slice(seq: List[int], q: int, i: int, a: int, c: int) -> bool:
    """
    pre: len(seq) <= N
    pre: 0 <= i <= q <= len(seq)
    pre: 0 <= a <= A + N and 0 <= c <= A + N
    post: _
    """
    step_slice(seq, q, i, a, c)
    return False


def twin_step_slice_open(seq: List[int], q: int, i: int, a: int) -> bool:
    """
    pre: len(seq) <= N
    pre: 0 <= i <= q <= len(seq)
    pre: 0 <= a <= A + N
    post: _
    """
    step_slice_open(seq, q, i, a)
    return False


def twin_step_hasnext(seq: List[int], q: int, i: int, n: int) -> bool:
    """
    pre: len(seq) <= N
    pre: all(x != 0 for x in seq)
    pre: 0 <= i <= q <= len(seq)
    pre: 1 <= n <= A
    post: _
    """
    step_hasnext(seq, q, i, n)
    return False


def twin_step_reach(seq: List[int], q: int, i: int) -> bool:
    """
    pre: len(seq) <= N
    pre: 0 <= i <= q <= len(seq)
    post: _
    """
    step_reach(seq, q, i)
    return False
