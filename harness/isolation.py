"""C17: the result depends only on the source text; parses are isolated."""
import io
from TexSoup import TexSoup
from symtex import skeleton as K
#include oracles.py

LETTERS = [(65, 90), (97, 122)]
SPECIALS = '\\{}$%[]\x00\x7f\r'
SIZES = ('left', 'right', 'big', 'Big', 'bigg', 'Bigg')


def outcome(f):
    try:
        soup = f()
    except Exception as e:
        return ('exc', type(e).__name__), None
    return ('ok', SX.raw(str(soup)), doc_shape(soup)), soup


def forms_of(src, holes_lf_free, full=True):
    n = len(src)
    cuts = sorted(set([0, 1, n // 2, n - 1, n])) if full else sorted(set([1, n // 2]))
    forms = []
    for i in cuts:
        if 0 <= i <= n:
            forms.append(('list@%d' % i, lambda i=i: [src[:i], src[i:]]))
            forms.append(('tuple@%d' % i, lambda i=i: (src[:i], src[i:])))
    forms.append(('generator', lambda: (p for p in [src[:1], src[1:2], src[2:]])))
    forms.append(('chars', lambda: list(src)))
    forms.append(('lines', lambda: [src]))
    if holes_lf_free:
        forms.append(('file', lambda: io.StringIO(src)))
    return forms


def compare_forms(src, lf_free, full=True):
    base, _ = outcome(lambda: TexSoup(src))
    for name, mk in forms_of(src, lf_free, full):
        got, _ = outcome(lambda: TexSoup(mk()))
        SX.check(got == base, 'C17:input-form-differs', lambda: {'source': src, 'form': name, 'as_str': repr(base)[:300], 'as_form': repr(got)[:300]})
    again, _ = outcome(lambda: TexSoup(src))
    SX.check(again == base, 'C17:second-parse-differs', lambda: {'source': src})
    return base


def c17_forms_free(n, lf_free=True):
    s = SX.fresh(n)
    if lf_free:         # the file form is split into lines by C code: holes must not be line feeds there
        for ch in s:
            SX.assume(SX.Not(SX.ch_eq(ch, '\n')))
    return compare_forms(s, lf_free)


def c17_forms_doc(doc):
    d = K.instantiate(doc, SX)
    src = K.doc_src(d)
    return compare_forms(src, False, False)


def c17_size(pi, n):
    """used for the hash-seed comparison: sizing prefix + free characters"""
    s = '\\' + SIZES[pi] + SX.fresh(n)
    o, _ = outcome(lambda: TexSoup(s))
    return o


def c17_size_math(pi, n):
    s = '$\\' + SIZES[pi] + SX.fresh(n) + 'a$'
    o, _ = outcome(lambda: TexSoup(s))
    return o


def c17_const(text):
    o, _ = outcome(lambda: TexSoup(text))
    return o


def c17_free(n):
    s = SX.fresh(n)
    o, _ = outcome(lambda: TexSoup(s))
    return o


def c17_doc(doc):
    d = K.instantiate(doc, SX)
    src = K.doc_src(d)
    o, _ = outcome(lambda: TexSoup(src))
    return o


# ------------------------------------------------------------------------------------------- isolation
def T(n):
    s = SX.fresh(n)
    for ch in s:
        SX.assume(SX.Not(SX.ch_among(ch, SPECIALS)))
    return s


def L(n):
    s = SX.fresh(n)
    for ch in s:
        SX.assume(SX.ch_in(ch, [(97, 122)]))
    return s


IDOCS = [
    lambda a, t: '\\c{\\begin{e}' + a + '\\end{e}}' + t + '\\section{\\begin{center}' + a + '\\end{center}}',
    lambda a, t: '$\\left\\lvert ' + a + '\\right\\| ' + t + '\\right\\rvert\\left\\langle x\\right\\rangle\\right\\}$',
    lambda a, t: '$' + a + '\\cup b\\in c' + t + '\\infty\\cap$\\noindent ' + a,
    lambda a, t: '\\textbf ' + a + t + '\\label ' + a + '\\section[o] s',
    lambda a, t: '\\a{' + a + '}' + t + '\\b[' + a + ']{y}',
    lambda a, t: '\\begin{e}[' + a + ']\\c{' + t + '}$' + a + '$\\end{e}',
    lambda a, t: '\\begin{itemize}\\item ' + a + t + '\\item \\d{' + a + '}\\end{itemize}',
    lambda a, t: '{' + a + '}\\section{' + a + '}' + t + '\\left(' + a + '\\right)',
]


def edit_all(soup):
    """a battery of edits; each guarded, failures are irrelevant here"""
    done = []
    nodes = [n for n in soup.descendants if isinstance(n, TexNode)]
    for n in nodes[:5]:
        try:
            for g in n.args:
                g.string = 'E'          # in-place edit of every argument group
        except Exception as e:
            done.append(type(e).__name__)
    for k, n in enumerate(nodes[:4]):
        try:
            if k == 0:
                n.name = 'zz'
            elif k == 1:
                n.args.append('{new}')
                n.args.reverse()
            elif k == 2:
                if len(n.args):
                    n.args[0].string = 'Q'
                n.delete()
            else:
                n.replace_with('R')
            done.append(k)
        except Exception as e:
            done.append(type(e).__name__)
    try:
        soup.append('tail')
        soup.insert(0, 'head')
    except Exception as e:
        done.append(type(e).__name__)
    for n in [x for x in soup.descendants if isinstance(x, TexNode)][:3]:
        try:
            n.args.clear()
            n.expr._contents.clear()
        except Exception as e:
            done.append(type(e).__name__)
    return done


def c17_isolation(ai, bi):
    a1, t1 = L(1), T(1)
    a2, t2 = L(1), T(1)
    A = IDOCS[ai](a1, t1)
    B = IDOCS[bi](a2, t2)
    det = lambda: {'A': A, 'B': B}
    b1 = TexSoup(B)
    s1 = doc_shape(b1)
    x1 = SX.raw(str(b1))
    try:
        TexSoup(A, skip_envs=('e', 'itemize', 'c'))       # options of one parse must not leak into the next
    except Exception:
        pass
    for bad in ('\\newcommand{\\foo}{\\textbf{x}', '$a', '\\begin{e}\\item', '{\\def\\x', '\\begin{verbatim}', '\\renewcommand{\\y}[1]{\\begin{z}', '\\left'):
        try:
            TexSoup(bad)            # a failed parse must not leave anything behind either
        except Exception:
            pass
    a = TexSoup(A)
    edit_all(a)
    b2 = TexSoup(B)
    SX.check(doc_shape(b2) == s1 and SX.raw(str(b2)) == x1, 'C17:parse-influenced-by-earlier-parse-or-edit', det)
    edit_all(b2)
    SX.check(doc_shape(b1) == s1 and SX.raw(str(b1)) == x1, 'C17:trees-share-mutable-state', det)
    b3 = TexSoup(B)
    SX.check(doc_shape(b3) == s1 and SX.raw(str(b3)) == x1, 'C17:parse-influenced-by-edits-of-same-source', det)
    # no object of the first tree is an object of the third
    e1 = [id(x) for x in walk(b1.expr, [])]
    e3 = [id(x) for x in walk(b3.expr, [])]
    SX.check(not (set(e1) & set(e3)), 'C17:trees-share-objects', det)
    a_again = TexSoup(A)
    a_ref = TexSoup(A)
    SX.check(doc_shape(a_again) == doc_shape(a_ref), 'C17:second-parse-differs', det)
    return ('ok', x1)


def walk(e, out):
    out.append(e)
    out.append(e.args)
    for g in e.args:
        if isinstance(g, TexExpr):
            walk(g, out)
    if isinstance(e, TexText):
        return out
    for c in e._contents:
        if isinstance(c, TexExpr):
            walk(c, out)
    return out
