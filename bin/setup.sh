#!/bin/bash
# Builds /verif/.venv: an overlay of the repository's own interpreter (/venv, python 3.12) plus
# z3-solver and crosshair-tool from the offline wheelhouse.  Idempotent; offline.
set -e
cd "$(dirname "$0")/.."
V=/verif/.venv
if [ ! -x $V/bin/python ] || ! $V/bin/python -c 'import z3, crosshair' 2>/dev/null; then
  rm -rf $V
  /venv/bin/python -m venv $V
  SP=$($V/bin/python -c 'import sysconfig; print(sysconfig.get_paths()["purelib"])')
  echo "import site; site.addsitedir('/venv/lib/python3.12/site-packages')" > $SP/base.pth
  PIP_NO_INDEX=1 $V/bin/pip install -q --no-index --find-links /opt/veriftools/wheels crosshair-tool z3-solver
fi
$V/bin/python -c 'import z3, crosshair; print("setup ok: z3", z3.get_version_string())'
# translator / model validation (DESIGN §3.1, §10.1); informative, does not block the setup
/verif/.venv/bin/python -m vt.cli selftest 2>&1 | tail -3 || echo "WARNING: selftest did not pass"
