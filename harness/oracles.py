# Shared oracles (textually included into harness modules, so that they run instrumented in symbolic mode
# and natively in concrete mode).
from TexSoup.data import TexText, TexCmd, TexNamedEnv, TexEnv, BraceGroup, BracketGroup, TexExpr, TexNode


def merge(xs):
    """adjacent text leaves merged, empty text dropped"""
    out = []
    for x in xs:
        if isinstance(x, str):
            if len(x) == 0:
                continue
            if out and isinstance(out[-1], str):
                out[-1] = out[-1] + x
                continue
        out.append(x)
    return tuple(out)


def shape(e):
    """nested tuples (kind, name, args, contents) built from args/_contents, never from repr"""
    if isinstance(e, TexText):
        return SX.raw(e._text)
    if isinstance(e, str):
        return SX.raw(e)
    if isinstance(e, BraceGroup):
        return ('brace', merge([shape(c) for c in e._contents]))
    if isinstance(e, BracketGroup):
        return ('bracket', merge([shape(c) for c in e._contents]))
    if isinstance(e, TexCmd):
        return ('cmd', SX.raw(e.name), tuple([shape(a) for a in e.args]), merge([shape(c) for c in e._contents]))
    if isinstance(e, TexNamedEnv):
        return ('env', SX.raw(e.name), tuple([shape(a) for a in e.args]), merge([shape(c) for c in e._contents]))
    if isinstance(e, TexEnv):
        return ('math', e.begin, merge([shape(c) for c in e._contents]))
    if isinstance(e, TexNode):
        return ('NODE-WRAPPER', shape(e.expr))
    raise AssertionError(type(e))


def doc_shape(soup):
    return merge([shape(c) for c in soup.expr._contents])


def diag_ok(e):
    """is exception e one of the parser's diagnostic errors (C06)?"""
    if isinstance(e, EOFError):
        return True
    if isinstance(e, TypeError):
        m = e.args[0] if e.args else ''
        return isinstance(m, str) and SX.raw(m)[:7] == '[Line: '
    if isinstance(e, AssertionError):
        m = e.args[0] if e.args else ''
        return isinstance(m, str) and SX.raw(m) in ('Begin command must be followed by an env name.',
                                                    'Command \\item invalid in math mode.')
    return False


def exc_sig(e):
    fr = SX.frame(e)
    return '%s@%s' % (type(e).__name__, '%s:%s:%s' % (fr[1], fr[2], fr[3]) if fr else '?')


def show(s):
    return SX.raw(str(s))
