"""Skeleton documents with symbolic holes: round trip (C01), tree shape (C02), positions (C13a)."""
from TexSoup import TexSoup
from symtex import skeleton as K
#include oracles.py


def spans(expr, base, out):
    """mirror of the serialisers: out = list of (start, end, expr); returns length"""
    if isinstance(expr, TexText) or not isinstance(expr, TexExpr):
        n = len(SX.raw(str(expr)))
        out.append((base, base + n, expr))
        return n
    pos = base
    if isinstance(expr, TexNamedEnv):
        pos += len('\\begin{%s}' % SX.raw(expr.name))
        tail = len('\\end{%s}' % SX.raw(expr.name))
    elif isinstance(expr, TexEnv):
        pos += 0 if expr.name == '[tex]' else len(expr.begin)
        tail = 0 if expr.name == '[tex]' else len(expr.end)
    else:
        pos += 1 + len(SX.raw(expr.name))
        tail = 0
    for a in expr.args:
        pos += spans(a, pos, out)
    for c in expr._contents:
        pos += spans(c, pos, out)
    pos += tail
    out.append((base, pos, expr))
    return pos - base


def doc_check(doc):
    d = K.instantiate(doc, SX)
    src = K.doc_src(d)
    expected = K.doc_shape(d)
    try:
        soup = TexSoup(src)
    except Exception as e:
        SX.check(False, 'C01:parse-fails:' + type(e).__name__, lambda: {'source': src, 'sig': exc_sig(e), 'error': repr(e)[:300]})
        SX.check(False, 'C02:parse-fails:' + type(e).__name__, lambda: {'source': src, 'sig': exc_sig(e), 'error': repr(e)[:300]})
        SX.check(False, 'C13:parse-fails:' + type(e).__name__, lambda: {'source': src, 'sig': exc_sig(e), 'error': repr(e)[:300]})
        return ('parse-fails', type(e).__name__)
    out = str(soup)
    SX.check(out == src, 'C01:roundtrip', lambda: {'source': src, 'output': out})
    A = doc_shape(soup)
    SX.check(A == expected, 'C02:shape', lambda: {'source': src, 'tree': repr(A), 'expected': repr(expected)})
    sp = []
    spans(soup.expr, 0, sp)
    for start, end, e in sp:
        if e is soup.expr:
            continue
        if isinstance(e, TexText) or (isinstance(e, str) and not isinstance(e, TexExpr)):
            t = e._text if isinstance(e, TexText) else e
            p = getattr(t, 'position', None)
            SX.check(p == start, 'C13:text-offset', lambda: {'source': src, 'text': SX.raw(str(t)), 'recorded': p, 'true': start})
            SX.check(src[start:end] == SX.raw(str(t)), 'C01:text-slice', lambda: {'source': src, 'text': SX.raw(str(t)), 'at': start})
        elif isinstance(e, TexExpr):
            SX.check(e.position == start, 'C13:node-offset',
                     lambda: {'source': src, 'node': SX.raw(str(e)), 'recorded': e.position, 'true': start})
            SX.check(src[start:end] == SX.raw(str(e)), 'C01:node-slice', lambda: {'source': src, 'node': SX.raw(str(e)), 'at': start})
        else:
            SX.check(False, 'C02:foreign-object-in-tree', lambda: {'source': src, 'object': repr(e)})
    return ('ok', out, A)
