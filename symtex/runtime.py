"""symtex runtime: symbolic characters as tag characters, SymBool forking, solver-backed decisions."""
import re
import time
import z3
from . import cond
from .cond import C

TAG_LO = 0xF0000
TAG_HI = 0xFFFFD
_TAG_RE = re.compile('[\U000F0000-\U000FFFFD]')
MAXCP = cond.MAXCP


class Unsupported(BaseException):
    """an unmodelled native operation received symbolic data"""


class PathAbort(BaseException):
    """assumption infeasible on this path"""


class Violation(BaseException):
    def __init__(self, label, assignment, detail=None):
        BaseException.__init__(self, label)
        self.label = label
        self.assignment = assignment
        self.detail = detail


class Hang(BaseException):
    pass


class PathEnd(BaseException):
    """a property assertion is violated for every value left on this path: nothing remains to explore"""


class EngineError(BaseException):
    pass


def raw(s):
    """exact-str payload of any str (subclass) instance"""
    return s if type(s) is str else str.__str__(s)


def tagged(s):
    return _TAG_RE.search(s) is not None


def is_tag(ch):
    return TAG_LO <= ord(ch) <= TAG_HI


class SymBool:
    __slots__ = ('c',)

    def __init__(self, c):
        self.c = c

    def __bool__(self):
        return ST.decide(self.c)

    def __repr__(self):
        return 'SymBool(%s)' % cond.show(self.c)


def B(x):
    """to condition (bool or C)"""
    if type(x) is SymBool:
        return x.c
    if x is True or x is False:
        return x
    if isinstance(x, C):
        return x
    return bool(x)


def wrap(c):
    if c is True or c is False:
        return c
    return SymBool(c)


def And(*xs):
    return cond.And(*[B(x) for x in xs])


def Or(*xs):
    return cond.Or(*[B(x) for x in xs])


def Not(x):
    return cond.Not(B(x))


class Stats:
    def __init__(self):
        self.paths = 0
        self.decisions = 0
        self.forks = 0
        self.solver_calls = 0
        self.cache_hits = 0
        self.syntactic = 0
        self.solver_time = 0.0
        self.assert_queries = 0
        self.assert_unsat = 0
        self.assert_sat = 0
        self.aborted = 0
        self.unknown = 0

    def as_dict(self):
        return dict(self.__dict__)

    def add(self, other):
        for k, v in other.items():
            setattr(self, k, getattr(self, k, 0) + v)


class State:
    """One exploring state per process."""

    def __init__(self):
        self.stats = Stats()
        self.qcache = {}
        self.step_budget = 2_000_000
        self.timeout_ms = 20000
        self.twin = False           # reachability twin: every assertion is replaced by `False`
        self.active = None          # label prefix of the property being decided (None: all labels)
        self.funcs = set()          # code objects of the functions executed under instrumentation
        self.reset_path([])

    # ------------------------------------------------------------ path management
    def reset_path(self, prefix):
        self.prefix = prefix
        self.cursor = 0
        self.trace = []
        self.pending = []
        self.nfresh = 0
        self.pc = []
        self.pc_ids = set()
        self.by_var = {}
        self.dom = {}
        self.multi = []
        self.steps = 0
        self.harness_decisions = 0
        self.violations = []
        self.report_from = len(prefix)

    def fresh(self, n=1):
        ks = range(self.nfresh, self.nfresh + n)
        self.nfresh += n
        if self.nfresh > TAG_HI - TAG_LO:
            raise EngineError('too many symbolic characters')
        return ''.join(chr(TAG_LO + k) for k in ks)

    def term(self, ch):
        o = ord(ch)
        if TAG_LO <= o <= TAG_HI:
            return ('v', o - TAG_LO)
        return ('c', o)

    # ------------------------------------------------------------ solver
    def _add_pc(self, c):
        if c is True:
            return
        if id(c) in self.pc_ids:
            return
        self.pc.append(c)
        self.pc_ids.add(id(c))
        if c.op in ('eqc', 'rng'):
            k = c.args[0]
            d = self.dom.get(k)
            self.dom[k] = c if d is None else cond.And(d, c)
        else:
            idx = len(self.multi)
            self.multi.append(c)
            for v in c.vars:
                self.by_var.setdefault(v, []).append(idx)

    def _slice(self, vars_):
        """(multi-variable constraints, variables) transitively connected with vars_"""
        seen_v = set()
        todo = list(vars_)
        idxs = set()
        while todo:
            v = todo.pop()
            if v in seen_v:
                continue
            seen_v.add(v)
            for i in self.by_var.get(v, ()):
                if i not in idxs:
                    idxs.add(i)
                    todo.extend(self.multi[i].vars)
        return idxs, seen_v

    def feasible(self, e):
        """sat(PC & e) decided by z3 on the independent slice; memoised"""
        if e is True:
            return True
        if e is False:
            return False
        if id(e) in self.pc_ids:
            self.stats.syntactic += 1
            return True
        ne = cond.Not(e)
        if id(ne) in self.pc_ids:
            self.stats.syntactic += 1
            return False
        idxs, vs = self._slice(e.vars)
        doms = [self.dom[v] for v in vs if v in self.dom]
        if any(d is False for d in doms):
            raise EngineError('empty domain on a live path')
        if not idxs and len(vs) == 1 and e.op in ('eqc', 'rng'):
            # one variable only: the verdict does not depend on which variable it is
            d = doms[0] if doms else None
            key = ('1', None if d is None else (d.op, d.args[1]), (e.op, e.args[1]))
        else:
            key = (frozenset(id(self.multi[i]) for i in idxs), frozenset(id(d) for d in doms), id(e))
        r = self.qcache.get(key)
        if r is not None:
            self.stats.cache_hits += 1
            return r
        s = self._solver()
        t = time.perf_counter()
        s.push()
        for v in vs:
            s.add(cond.domain_z3(v))
        for d in doms:
            s.add(cond.to_z3(d))
        for i in idxs:
            s.add(cond.to_z3(self.multi[i]))
        s.add(cond.to_z3(e))
        res = s.check()
        s.pop()
        self.stats.solver_time += time.perf_counter() - t
        self.stats.solver_calls += 1
        if res == z3.unknown:
            self.stats.unknown += 1
            raise Unsupported('solver returned unknown')
        r = (res == z3.sat)
        self.qcache[key] = r
        return r

    def _solver(self):
        s = getattr(self, '_z3solver', None)
        if s is None:
            s = self._z3solver = z3.Solver()
            s.set('timeout', self.timeout_ms)
        return s

    def model(self, extra=None):
        """assignment {k: code point} for all fresh variables satisfying PC (& extra)"""
        s = self._solver()
        t = time.perf_counter()
        s.push()
        try:
            for k in range(self.nfresh):
                s.add(cond.domain_z3(k))
            for c in self.pc:
                s.add(cond.to_z3(c))
            if extra is not None and extra is not True:
                s.add(cond.to_z3(extra))
            res = s.check()
            self.stats.solver_calls += 1
            if res != z3.sat:
                return None
            m = s.model()
            return {k: m.eval(cond.zvar(k), model_completion=True).as_long() for k in range(self.nfresh)}
        finally:
            s.pop()
            self.stats.solver_time += time.perf_counter() - t

    # ------------------------------------------------------------ decisions
    def decide(self, e):
        if e is True or e is False:
            return e
        self.stats.decisions += 1
        if self.cursor < len(self.prefix):
            v, eid = self.prefix[self.cursor]
            if eid is not None and eid != id(e):
                raise EngineError('replay divergence at decision %d: %s' % (self.cursor, cond.show(e)))
            self.cursor += 1
            self.trace.append((v, eid))
            self._add_pc(e if v else cond.Not(e))
            return v
        can_t = self.feasible(e)
        can_f = self.feasible(cond.Not(e)) if can_t else True
        if can_t and can_f:
            self.stats.forks += 1
            self.pending.append(self.trace + [(False, id(e))])
            v = True
        elif can_t:
            v = True
        elif can_f:
            v = False
        else:
            raise EngineError('path condition became unsatisfiable')
        self.trace.append((v, id(e)))
        self.cursor += 1
        self._add_pc(e if v else cond.Not(e))
        return v

    def assume(self, x):
        e = B(x)
        if e is True:
            return
        if e is False:
            self.stats.aborted += 1
            raise PathAbort()
        if self.cursor < len(self.prefix):
            v, eid = self.prefix[self.cursor]
            if eid is not None and eid != id(e):
                raise EngineError('replay divergence at assumption %d' % self.cursor)
            self.cursor += 1
            self.trace.append((v, eid))
            self._add_pc(e)
            return
        if not self.feasible(e):
            self.stats.aborted += 1
            raise PathAbort()
        self.trace.append((True, id(e)))
        self.cursor += 1
        self._add_pc(e)

    def check(self, x, label='assert', detail=None):
        """property assertion: must hold for every value on this path.

        sat(PC & !cond) -> a counterexample is recorded (once per decision-tree node) and the path
        continues on the part of its cell where the assertion holds, so that a violation never hides
        the checks behind it."""
        if self.active is not None and not label.startswith(self.active):
            return
        e = False if self.twin else B(x)
        self.stats.assert_queries += 1
        if e is True:
            self.stats.assert_unsat += 1
            return
        ne = cond.Not(e)
        if ne is not True and not self.feasible(ne):
            self.stats.assert_unsat += 1
            return
        self.stats.assert_sat += 1
        if self.cursor >= self.report_from:
            a = self.model(ne)
            if a is None:
                raise EngineError('no model for a feasible negation')
            self.violations.append((label, a, self.cursor))
        if e is False or not self.feasible(e):
            raise PathEnd()
        if self.cursor < len(self.prefix):
            v, eid = self.prefix[self.cursor]
            if eid is not None and eid != id(e):
                raise EngineError('replay divergence at check %d' % self.cursor)
            self.cursor += 1
            self.trace.append((v, eid))
            self._add_pc(e)
            return
        self.trace.append((True, id(e)))
        self.cursor += 1
        self._add_pc(e)

    def tick(self, n=1):
        self.steps += n
        if self.steps > self.step_budget:
            raise Hang()

    def concretize(self, s, assignment):
        out = []
        for ch in raw(s):
            o = ord(ch)
            if TAG_LO <= o <= TAG_HI:
                out.append(chr(assignment[o - TAG_LO]))
            else:
                out.append(ch)
        return ''.join(out)


ST = State()


# ---------------------------------------------------------------------- character level helpers

def ch_eq(a, b):
    """condition: characters a and b (1-char strings, possibly tags) are equal"""
    if a == b:
        return True
    oa, ob = ord(a), ord(b)
    sa = TAG_LO <= oa <= TAG_HI
    sb = TAG_LO <= ob <= TAG_HI
    if sa and sb:
        return cond.eqv(oa - TAG_LO, ob - TAG_LO)
    if sa:
        return cond.eqc(oa - TAG_LO, ob)
    if sb:
        return cond.eqc(ob - TAG_LO, oa)
    return False


def ch_in(ch, ranges):
    """condition: character in one of the closed code point ranges"""
    o = ord(ch)
    if TAG_LO <= o <= TAG_HI:
        return cond.rng(o - TAG_LO, ranges)
    return any(lo <= o <= hi for lo, hi in ranges)


def ch_among(ch, chars):
    o = ord(ch)
    if TAG_LO <= o <= TAG_HI:
        return cond.rng(o - TAG_LO, [(ord(c), ord(c)) for c in chars])
    return ch in chars


def _ranges(cs):
    out = []
    for c in cs:
        if out and out[-1][1] == c - 1:
            out[-1][1] = c
        else:
            out.append([c, c])
    return tuple((a, b) for a, b in out)


WS_RANGES = _ranges([c for c in range(MAXCP + 1) if chr(c).isspace()])


def ch_ws(ch):
    return ch_in(ch, WS_RANGES)
