"""Check driver: plan -> work units -> parallel symbolic exploration -> findings triage -> evidence -> exit code.

exit 0  every unit explored completely, every assertion unsat for its negation (or only known findings)
exit 1  at least one counterexample reproduced on the real code that known_findings.json does not list
exit 2  inconclusive / engine error (never reported as success)
"""
import base64
import collections
import hashlib
import importlib
import json
import os
import pickle
import sys
import time

VERIF = os.path.dirname(os.path.dirname(os.path.abspath(__file__)))
REPO = os.environ.get('VERIF_REPO', '/repo')
sys.path.insert(0, VERIF)


def log(*a):
    print(*a, flush=True)


def load_known():
    p = os.path.join(VERIF, 'known_findings.json')
    if not os.path.exists(p):
        return []
    with open(p) as f:
        return json.load(f).get('findings', [])


def default_signature(v):
    d = v.get('detail')
    if isinstance(d, dict) and d.get('sig'):
        return '%s|%s' % (v['label'], d['sig'])
    return v['label']


def chars(vals):
    return ''.join(chr(c) for c in vals)


def jsonable(x, depth=0):
    if isinstance(x, (str, int, float, bool)) or x is None:
        return x
    if isinstance(x, (list, tuple)):
        return [jsonable(y, depth + 1) for y in x]
    if isinstance(x, dict):
        return {str(k): jsonable(v, depth + 1) for k, v in x.items()}
    return repr(x)


def write_replay(prop, v, sig):
    d = os.path.join(VERIF, 'replays', prop)
    os.makedirs(d, exist_ok=True)
    h = hashlib.sha1(sig.encode()).hexdigest()[:12]
    path = os.path.join(d, '%s.json' % h)
    rec = {
        'property': prop, 'signature': sig, 'label': v['label'],
        'harness': v['unit'][0], 'function': v['unit'][1],
        'args_repr': repr(v['unit'][2])[:2000],
        'args_pickle_b64': base64.b64encode(pickle.dumps(v['unit'][2])).decode(),
        'input_chars': v['vals'], 'input_text': chars(v['vals']),
        'detail': jsonable(v.get('detail')),
        'how': 'bin/check --replay %s   (exit 1 while the violation reproduces on /repo)' % path,
    }
    with open(path, 'w') as f:
        json.dump(rec, f, indent=1, ensure_ascii=True)
    return path


def replay(path):
    """re-run one recorded counterexample against the real code in /repo"""
    from symtex import instrument, session
    with open(path) as f:
        rec = json.load(f)
    args = pickle.loads(base64.b64decode(rec['args_pickle_b64']))
    hfile = os.path.join(VERIF, 'harness', rec['harness'])
    sys.path.insert(0, REPO)
    con = instrument.load_harness(hfile, 'replay_con', False, sx=None)
    st, val, det = session.Session.run_concrete(con, rec['function'], args, rec['input_chars'],
                                                rec['property'], timeout=30)
    log('replay %s: status=%s value=%s' % (path, st, val))
    if det is not None:
        log('detail: %s' % json.dumps(jsonable(det), ensure_ascii=True)[:3000])
    if st == 'violation':
        log('VIOLATION property=%s replay=%s' % (rec['property'], path))
        return 1
    if st == 'timeout':
        log('VIOLATION property=%s replay=%s (timeout)' % (rec['property'], path))
        return 1
    return 0


def expand_splits(units):
    """units carrying 'split': N are expanded breadth-first into >= N decision prefixes"""
    need = [u for u in units if u.get('split')]
    if not need:
        for u in units:
            u.pop('split', None)
        return units
    from symtex import session, explore as X, runtime as R
    S = session.Session(use_summary=False)
    out = []
    for u in units:
        n = u.pop('split', None)
        if not n:
            out.append(u)
            continue
        S.set_summary(u.get('summary_mode', True))
        sym, _con = S.load(u['hfile'])
        R.ST.active = u.get('active')
        fn = getattr(sym, u['fname'])
        done, open_ = X.split(lambda: fn(*u['args']), n)
        for p in done + open_:
            v = dict(u)
            v['start'] = p
            out.append(v)
    return out


def run_check(modname, tier, seed, workers=None):
    t0 = time.time()
    mod = importlib.import_module('checks.' + modname)
    prop = mod.PROPERTY
    plan = mod.plan(tier, seed)
    units = plan['units']
    for u in units:
        u.setdefault('active', prop)
        u['hfile'] = os.path.join(VERIF, 'harness', u['hfile']) if not os.path.isabs(u['hfile']) else u['hfile']
    log('[%s] %s tier=%s seed=%d: %d planned units' % (prop, modname, tier, seed, len(units)))
    units = expand_splits(units)
    # reachability twins are chosen after the main run, among the instances that evaluated an assertion (see below)
    from symtex import parallel
    last = [time.time()]

    def progress(r, i, n):
        if time.time() - last[0] > 30:
            last[0] = time.time()
            log('  ... %d/%d units, %.0fs' % (i, n, time.time() - t0))

    extra_box = []
    th = None
    if hasattr(mod, 'post'):
        import threading

        def _post():
            try:
                extra_box.append(mod.post(tier, seed, log))
            except BaseException as e:
                import traceback
                extra_box.append({'problems': ['post-check failed: %r %s' % (e, traceback.format_exc()[-800:])]})
        th = threading.Thread(target=_post)
        th.start()
    results, wall = parallel.run_units(units, root=os.path.join(REPO, 'TexSoup'), workers=workers,
                                       paths=[VERIF, REPO], progress=progress)
    # reachability twins: for every harness function, up to 3 instances that evaluated at least one assertion are
    # re-run with every assertion replaced by False; each must yield a violation that reproduces natively
    by_unit = {}
    for u in units:
        by_unit[(os.path.basename(u['hfile']), u['fname'], repr(u['args']), repr(u.get('start')))] = u
    cands = {}
    for r in results:
        if 'engine_error' in r or r['stats'].get('assert_queries', 0) == 0:
            continue
        key = (r['unit'][0], r['unit'][1])
        cands.setdefault(key, []).append((r['paths'], r['unit']))
    twins = []
    for key, lst in cands.items():
        lst.sort(key=lambda x: x[0])
        for _, unit in lst[:3]:
            u = by_unit.get((unit[0], unit[1], repr(unit[2]), repr(unit[3])))
            if u is not None:
                t = dict(u)
                t['twin'] = True
                t['max_paths'] = 25
                twins.append(t)
    fnames = set((os.path.basename(u['hfile']), u['fname']) for u in units)
    twin_results = []
    if twins:
        twin_results, _ = parallel.run_units(twins, root=os.path.join(REPO, 'TexSoup'), workers=min(8, len(twins)),
                                             paths=[VERIF, REPO])
    results = list(results) + list(twin_results)
    for key in fnames:
        if key not in cands:
            results.append({'unit': (key[0], key[1], (), None), 'twin': True, 'violations': [], 'status': {}, 'no_candidate': True})
    if th is not None:
        th.join()
    extra = extra_box[0] if extra_box else None
    if hasattr(mod, 'after'):
        more = mod.after(tier, seed, results, log)
        if more:
            extra = extra or {}
            for key in ('violations', 'problems'):
                extra[key] = list(extra.get(key, [])) + list(more.get(key, []))
            extra['evidence'] = dict(extra.get('evidence', {}), **more.get('evidence', {}))
    return finish(mod, plan, tier, seed, results, t0, len(units), extra)


def finish(mod, plan, tier, seed, results, t0, nunits, post=None):
    prop = mod.PROPERTY
    classify = getattr(mod, 'signature', default_signature)
    known = [k for k in load_known() if k['property'] == prop]
    known_sigs = {k['signature']: k for k in known if k.get('status') == 'known'}
    tot = collections.Counter()
    status = collections.Counter()
    stats = collections.Counter()
    funcs = set()
    samples = []
    problems = []
    viols = {}
    twin_ok = 0
    twin_fn = {}
    twin_units = 0
    summary_info = None
    nfresh_max = 0
    for r in results:
        if 'engine_error' in r:
            problems.append('engine error in unit %r: %s' % (r['unit'][:3], r['engine_error'][-600:]))
            continue
        funcs.update(r.get('funcs', ()))
        summary_info = r.get('summary_info') or summary_info
        if r.get('twin'):
            twin_units += 1
            key = r['unit'][:2]
            twin_fn.setdefault(key, 0)
            if r['violations']:
                twin_ok += 1
                twin_fn[key] += 1
            continue
        tot['paths'] += r['paths']
        tot['validated'] += r['validated']
        nfresh_max = max(nfresh_max, r['nfresh_max'])
        for k, v in r['status'].items():
            status[k] += v
        for k, v in r['stats'].items():
            stats[k] += v
        if not r['complete']:
            problems.append('incomplete unit %r: %s' % (r['unit'][:3], r['reason']))
        for m in r['mismatches']:
            problems.append('symbolic/native mismatch in %r: %r' % (r['unit'][:3], m))
        for u in r['unreproduced']:
            problems.append('counterexample did not reproduce natively in %r: %r' % (r['unit'][:3], u))
        for o in r['other']:
            problems.append('path ended with %s in %r: %s | native: %s %s | %s' % (
                o[0], r['unit'][:3], o[1], o[4], o[5], o[2][-300:]))
        for v in r['violations']:
            v['unit'] = r['unit']
            sig = classify(v)
            viols.setdefault(sig, []).append(v)
        if len(samples) < 6:
            for s in r['samples'][:1]:
                s = dict(s)
                s['unit'] = repr(r['unit'][1:3])[:300]
                s['input_text'] = chars(s['input_chars'])
                samples.append(s)
    post_ev = {}
    if post:
        problems.extend(post.get('problems', []))
        for v in post.get('violations', []):
            viols.setdefault(classify(v), []).append(v)
        tot['paths'] += post.get('paths', 0)
        tot['validated'] += len(post.get('violations', []))
        stats['decisions'] += post.get('decisions', 0)
        funcs.update(post.get('funcs', []))
        post_ev = post.get('evidence', {})
    for key, n in twin_fn.items():
        if n == 0:
            problems.append('vacuous harness: no assertion reachable in any sampled instance of %r' % (key,))
    if tot['paths'] == 0:
        problems.append('no path explored')
    if stats['assert_queries'] == 0:
        problems.append('no assertion evaluated')
    # ------------------------------------------------------------ findings
    new = []
    known_hit = []
    for sig, vs in sorted(viols.items()):
        if sig in known_sigs:
            known_hit.append(sig)
            log('KNOWN-FINDING: property=%s %s (%d counterexamples, e.g. input %r)' % (
                prop, known_sigs[sig].get('description', sig), len(vs), chars(vs[0]['vals'])))
        else:
            path = write_replay(prop, vs[0], sig)
            new.append((sig, path, vs))
            log('VIOLATION property=%s replay=%s' % (prop, path))
            log('   signature: %s   counterexamples: %d   e.g. symbolic chars=%r unit=%s' % (
                sig, len(vs), chars(vs[0]['vals']), repr(vs[0]['unit'][1:3])[:300]))
            d = vs[0].get('detail')
            if d is not None:
                log('   detail: %s' % json.dumps(jsonable(d), ensure_ascii=True)[:1500])
    wall = time.time() - t0
    inconclusive = bool(problems)
    for p in problems[:25]:
        log('INCONCLUSIVE: ' + p[:1500])
    if len(problems) > 25:
        log('INCONCLUSIVE: ... %d more' % (len(problems) - 25))
    ev = {
        'property_id': prop, 'tier': tier, 'seed': seed, 'level': 'model_checking',
        'coverage': {
            'states': tot['paths'],
            'transitions': stats['decisions'],
            'traces_validated_against_impl': tot['validated'],
            'samples': samples or [{'note': 'no completed path'}],
            'exhaustive': (not inconclusive),
            'explanation': 'states = explored feasible path conditions (each a cell of the partition of the bounded '
                           'input space); transitions = decisions taken on symbolic data; every path and every '
                           'counterexample is replayed on the unmodified TexSoup package',
            'work_units': nunits,
            'path_status': dict(status),
            'symbolic_chars_max': nfresh_max,
            'functions_encoded': sorted(funcs),
            'bounds': plan.get('bounds', {}),
            'outside_claim': plan.get('outside', []),
            'queries': {
                'feasibility_solver_calls': stats['solver_calls'], 'feasibility_cache_hits': stats['cache_hits'],
                'syntactic': stats['syntactic'], 'assertion_queries': stats['assert_queries'],
                'assertion_unsat': stats['assert_unsat'], 'assertion_sat': stats['assert_sat'],
                'unknown': stats['unknown'],
            },
            'solver': 'z3 %s (python wheel), incremental push/pop' % _z3_version(),
            'solver_time_s': round(stats['solver_time'], 2),
            'paths_aborted_by_assumption': status.get('abort', 0),
            'unsupported_paths': status.get('unsupported', 0),
            'vacuity_witnesses': {'twin_units': twin_units, 'twin_units_violated_and_reproduced': twin_ok},
            'summary_lemma': summary_info,
            'known_findings_hit': known_hit,
            'new_violation_signatures': [s for s, _, _ in new],
            'inconclusive_reasons': problems[:10],
        },
        'assumptions': plan.get('assumptions', []) + [
            'CPython semantics for all operations that only move characters; z3 verdicts; the models of '
            'symtex/models.py for C-level decisions (validated per path against CPython)'],
        'wall_s': round(wall, 2),
        'violations': len(new),
    }
    ev['coverage'].update(post_ev)
    extra = getattr(mod, 'extra_evidence', None)
    if extra:
        ev['coverage'].update(extra(results))
    os.makedirs(os.path.join(VERIF, 'evidence'), exist_ok=True)
    with open(os.path.join(VERIF, 'evidence', prop + '.json'), 'w') as f:
        json.dump(ev, f, indent=1, ensure_ascii=True, default=repr)
    log('[%s] paths=%d validated=%d decisions=%d solver_calls=%d (%.1fs) cache_hits=%d asserts=%d/%d unsat '
        'status=%s wall=%.1fs' % (prop, tot['paths'], tot['validated'], stats['decisions'], stats['solver_calls'],
                                  stats['solver_time'], stats['cache_hits'], stats['assert_unsat'],
                                  stats['assert_queries'], dict(status), wall))
    slow = sorted([r for r in results if 'engine_error' not in r and not r.get('twin') and 'wall' in r], key=lambda r: -r['wall'])[:3]
    for r in slow:
        if r['wall'] > 20:
            log('  slow unit: %.0fs %d paths %s' % (r['wall'], r['paths'], repr(r['unit'][1:3])[:300]))
    if new:
        return 1
    if inconclusive:
        return 2
    log('[%s] PASS within bounds %s' % (prop, json.dumps(plan.get('bounds', {}))[:600]))
    return 0


def _z3_version():
    try:
        import z3
        return z3.get_version_string()
    except Exception:
        return '?'
