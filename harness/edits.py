"""C05: structural edits are local to the targeted node (twin holes: the solver may make sibling texts equal)."""
from TexSoup import TexSoup
#include oracles.py

LET = [(97, 122)]
SPECIALS = '\\{}$%[]\x00\x7f\r'


def L(n):
    s = SX.fresh(n)
    for ch in s:
        SX.assume(SX.ch_in(ch, LET))
    return s


def T(n):
    s = SX.fresh(n)
    for ch in s:
        SX.assume(SX.Not(SX.ch_among(ch, SPECIALS)))
    return s


DOCS = [
    lambda a, b, t: '\\a{' + a + '}' + t + '\\a{' + b + '}',
    lambda a, b, t: '\\begin{e}\\a{' + a + '}' + t + '\\a{' + b + '}\\end{e}',
    lambda a, b, t: '\\begin{itemize}\\item[\\a{' + a + '}] ' + t + '\\a{' + b + '}\\end{itemize}',
    lambda a, b, t: '\\c{\\a{' + a + '}' + t + '\\a{' + b + '}}',
    lambda a, b, t: '$\\a{' + a + '}' + t + '\\a{' + b + '}$',
    lambda a, b, t: '{\\a{' + a + '}}' + t + '\\a{' + b + '}',
    lambda a, b, t: '\\c[\\a{' + a + '}]{\\a{' + b + '}}' + t,
    lambda a, b, t: '\\begin{itemize}\\item \\a{' + a + '}\\item \\a{' + b + '}\\end{itemize}' + t,
    lambda a, b, t: '\\begin{e}{' + a + '}' + t + '{' + b + '}\\end{e}',
    lambda a, b, t: '\\begin{e}$' + a + '$' + t + '$' + b + '$\\end{e}',
    lambda a, b, t: '\\begin{e}[\\a{' + a + '}]\\a{' + b + '}' + t + '\\end{e}',
    lambda a, b, t: '\\a{' + a + '}\\a{' + b + '}' + t + '\\a{' + a + '}',
    lambda a, b, t: '\\begin{e}\\begin{f}' + a + '\\end{f}' + t + '\\begin{f}' + b + '\\end{f}\\end{e}',
    lambda a, b, t: '\\c{\\a{' + a + '}}{' + t + '\\a{' + b + '}}',
    lambda a, b, t: '\\[\\a{' + a + '}' + t + '\\a{' + b + '}\\]',
    lambda a, b, t: '\\begin{equation}\\a{' + a + '}' + t + '\\a{' + b + '}\\end{equation}',
]
NDOCS = len(DOCS)


def nodes_of(node, acc):
    for c in node.contents:
        if isinstance(c, TexNode):
            acc.append(c)
            nodes_of(c, acc)
    return acc


def head_of(expr):
    if isinstance(expr, TexNamedEnv):
        return '\\begin{%s}' % SX.raw(expr.name) + SX.raw(str(expr.args))
    if isinstance(expr, TexEnv):
        if expr.name == '[tex]':
            return ''
        return expr.begin
    if isinstance(expr, TexCmd):
        return '\\' + SX.raw(expr.name) + SX.raw(str(expr.args))
    raise AssertionError(type(expr))


def spans(expr, base, out):
    """mirror of the serialisers: out[id(e)] = (start, end, start of its content list); returns length"""
    if isinstance(expr, TexText) or not isinstance(expr, TexExpr):
        n = len(SX.raw(str(expr)))
        out[id(expr)] = (base, base + n, base)
        return n
    pos = base
    if isinstance(expr, TexNamedEnv):
        pos += len('\\begin{%s}' % SX.raw(expr.name))
        tail = len('\\end{%s}' % SX.raw(expr.name))
    elif isinstance(expr, TexEnv):
        pos += 0 if expr.name == '[tex]' else len(expr.begin)
        tail = 0 if expr.name == '[tex]' else len(expr.end)
    else:
        pos += 1 + len(SX.raw(expr.name))
        tail = 0
    for a in expr.args:
        pos += spans(a, pos, out)
    cbase = pos
    for c in expr._contents:
        pos += spans(c, pos, out)
    pos += tail
    out[id(expr)] = (base, pos, cbase)
    return pos - base


def material(kind):
    """new material: plain strings and copies of nodes parsed elsewhere; returns (objects, text)"""
    if kind == 's1':
        z = T(1)
        return [z], z
    if kind == 'n1':
        m = TexSoup('\\n{1}').n.copy()
        return [m], '\\n{1}'
    if kind == 's2':
        z = T(1)
        m = TexSoup('\\n{1}').n.copy()
        return [z, m], z + '\\n{1}'
    if kind == 'n3':
        a = L(1)
        m1 = TexSoup('\\a{' + a + '}').a.copy()       # may become a twin of an existing node
        m2 = TexSoup('{q}').contents[0].copy()
        return [m1, 'w', m2], '\\a{' + a + '}w{q}'
    raise AssertionError(kind)


def setup(di):
    a, b, t = L(1), L(1), T(1)
    src = DOCS[di](a, b, t)
    soup = TexSoup(src)
    SX.assume(str(soup) == src)         # round trip is C01's business
    sp = {}
    spans(soup.expr, 0, sp)
    return src, soup, sp


def c05_target(di, k, op, mat):
    """edit the k-th node (document order) of document di"""
    src, soup, sp = setup(di)
    nodes = nodes_of(soup, [])
    if k >= len(nodes):
        return ('skip',)
    node = nodes[k]
    start, end, _ = sp[id(node.expr)]
    det = lambda: {'sig': twin_sig(src, start, end), 'source': src, 'target': src[start:end], 'at': start, 'op': op,
                   'material': mat, 'result': str(soup)}
    try:
        if op == 'delete':
            node.delete()
            new = ''
        elif op == 'replace' and mat == 'wrap':
            node.replace_with('(', node, ')')        # the target itself between two new strings
            new = '(' + src[start:end] + ')'
        elif op == 'replace' and mat == 'twice':
            m = TexSoup('\\n{1}').n.copy()
            node.replace_with(node, m)
            new = src[start:end] + '\\n{1}'
        elif op == 'replace':
            objs, new = material(mat)
            node.replace_with(*objs)
        elif op == 'remove':
            if not any([c is node.expr for c in node.parent.expr._contents]):
                return ('skip',)
            node.parent.remove(node)
            new = ''
        else:
            raise AssertionError(op)
    except Exception as e:
        SX.check(False, 'C05:%s-raises:%s' % (op, type(e).__name__), lambda: dict(det(), error=repr(e)[:300]))
        return ('raised', op)
    out = str(soup)
    SX.check(out == src[:start] + new + src[end:], 'C05:%s-local' % op, det)
    return ('ok', out)


def twin_sig(src, start, end):
    """classifier for the known-finding signature: does the target have an earlier textual twin?"""
    t = src[start:end]
    first = src.find(t)
    return 'earlier-textual-twin' if 0 <= first < start else 'no-earlier-twin'


def containers_of(soup):
    out = [soup]
    for n in nodes_of(soup, []):
        if n.expr._supports_contents() and not isinstance(n.expr, TexText):
            out.append(n)
    return out


def c05_insert(di, k, i, mat):
    """insert material at index i (None: append) of the k-th container"""
    src, soup, sp = setup(di)
    cs = containers_of(soup)
    if k >= len(cs):
        return ('skip',)
    c = cs[k]
    n = len(c.expr._contents)
    if i is not None and i > n:
        return ('skip',)
    _s, _e, cbase = sp[id(c.expr)]
    idx = n if i is None else i
    off = cbase + sum([len(SX.raw(str(x))) for x in c.expr._contents[:idx]])
    objs, new = material(mat)
    det = lambda: {'source': src, 'container': SX.raw(str(c)), 'index': i, 'material': mat, 'result': str(soup)}
    try:
        if i is None:
            c.append(*objs)
        else:
            c.insert(i, *objs)
    except Exception as e:
        SX.check(False, 'C05:insert-raises:%s' % type(e).__name__, lambda: dict(det(), error=repr(e)[:300]))
        return ('raised',)
    out = str(soup)
    SX.check(out == src[:off] + new + src[off:], 'C05:%s-local' % ('append' if i is None else 'insert'), det)
    return ('ok', out)
