"""C11: verbatim-like environments are opaque."""
from TexSoup import TexSoup
#include oracles.py

LETTERS = [(65, 90), (97, 122)]
CTX = [('', ''), ('p', 'q'), ('\\begin{e}', '\\end{e}'), ('\\begin{e}x\\begin{f}', '\\end{f}y\\end{e}'), ('%c\n', '$m$'),
       ('\\begin{e}[o]{r}', '\\w{z}\\end{e}')]
BUILTIN = ['verbatim', 'lstlisting', 'verbatimtab', 'Verbatim', 'listing']
FRAGS = ['', '\\end{other}', '\\begin{verbatim}', '$', 'x{', 'x}', 'x[', ']', '\\begin{e}', '\\end{e}', '%c\n', '\\item', '$$', '\\(',
         '\\zz{q}', 'x\\', '\\end{verbati}', '\\end verbatim', '\\en', '\\end{@', '\\end{@x}', '\\end{@ }', '\\end[@}', 'a\\end{@\n', '\\end {@}', '\\end\n{@}x', 'x\\left', '$\\big', '\\Bigg\\', '\\right.']


def body_ok(b):
    """C11's side conditions on the body"""
    n = len(b)
    for ch in b:
        SX.assume(SX.Not(SX.ch_among(ch, '\x00\x7f')))
    prefix_blank = []
    for i in range(n):
        # first non-blank character is not { or [   (blank = space, tab, LF, CR as merged by the tokenizer)
        SX.assume(SX.Not(SX.And(*(prefix_blank + [SX.ch_among(b[i], '{[')]))))
        prefix_blank = prefix_blank + [SX.ch_among(b[i], ' \t\n\r')]
    if n:
        SX.assume(SX.Not(SX.ch_eq(b[n - 1], '\\')))
    for i in range(n):
        # no % on the last line
        later_no_eol = [SX.Not(SX.ch_among(b[j], '\n\r')) for j in range(i + 1, n)]
        SX.assume(SX.Not(SX.And(*([SX.ch_eq(b[i], '%')] + later_no_eol))))


def c11(ci, fi, n, user):
    free = SX.fresh(n)
    if isinstance(user, str):
        name = user                 # a concrete user-chosen name (e.g. one that is also a math environment name)
        kw = {'skip_envs': (name,)}
    elif user:
        name = SX.fresh(user)
        for ch in name:
            SX.assume(SX.ch_in(ch, LETTERS))
        for w in ('e', 'f', 'w', 'o', 'r', 'in', 'zz'):
            if len(w) == user:
                SX.assume(SX.Not(SX.s_eq(name, w)))
        kw = {'skip_envs': (name,)}
    else:
        name = BUILTIN[(ci + fi) % len(BUILTIN)]
        kw = {}
    body = FRAGS[fi].replace('@', name) + free       # '@' stands for the environment's own name
    body_ok(body)
    term = '\\end{' + name + '}'
    for i in range(len(body) - len(term) + 1):
        SX.assume(SX.Not(SX.s_eq(body[i:i + len(term)], term)))     # the body is the text before the first \end{name}
    pre, post = CTX[ci]
    src = pre + '\\begin{' + name + '}' + body + '\\end{' + name + '}' + post
    det = lambda: {'source': src, 'skip_envs': repr(kw)}
    try:
        soup = TexSoup(src, **kw)
    except Exception as e:
        SX.check(False, 'C11:parse-error:' + type(e).__name__, lambda: dict(det(), error=repr(e)[:200]))
        return ('parse-fails',)
    SX.check(str(soup) == src, 'C11:roundtrip', lambda: dict(det(), output=str(soup)))
    envs = soup.find_all(name)
    SX.check(len(envs) == 1, 'C11:env-count', lambda: dict(det(), found=len(envs)))
    if len(envs) != 1:
        return ('env-count', len(envs))
    env = envs[0]
    allc = env.expr.all
    SX.check(''.join([SX.raw(str(x)) for x in allc]) == body, 'C11:body-text', lambda: dict(det(), body=[SX.raw(str(x)) for x in allc]))
    SX.check(len(allc) == (1 if len(body) else len(allc)) and len(env.expr.args) == 0, 'C11:single-leaf', lambda: dict(det(), leaves=len(allc)))
    SX.check(len(list(env.children)) == 0 and len(soup.find_all('zz')) == 0, 'C11:body-parsed', det)
    SX.check(len([x for x in env.descendants if isinstance(x, TexNode)]) == 0, 'C11:body-has-nodes', det)
    if user:
        # a user-supplied name behaves exactly like a built-in one
        ref_src = pre + '\\begin{verbatim}' + body + '\\end{verbatim}' + post
        try:
            ref = TexSoup(ref_src)
            a = doc_shape(soup)
            b = rename_shape(doc_shape(ref), 'verbatim', name)
            SX.check(a == b, 'C11:user-name-differs-from-builtin', lambda: dict(det(), user=repr(a), builtin=repr(b)))
        except Exception as e:
            SX.check(False, 'C11:builtin-fails-where-user-name-works:' + type(e).__name__, det)
    return ('ok', len(allc), str(soup))


def rename_shape(s, old, new):
    if isinstance(s, tuple):
        if len(s) == 4 and s[0] == 'env' and isinstance(s[1], str) and s[1] == old:
            return ('env', new, rename_shape(s[2], old, new), rename_shape(s[3], old, new))
        return tuple([rename_shape(x, old, new) for x in s])
    return s


def c11_both(ci, n):
    """a built-in and a user-chosen verbatim-like environment in the same document: both stay opaque"""
    name = SX.fresh(1)
    SX.assume(SX.ch_in(name, LETTERS))
    SX.assume(SX.Not(SX.ch_among(name, 'efworb')))
    b1 = '$' + SX.fresh(n) + '{'
    b2 = '}\\b{' + SX.fresh(n)
    body_ok(b1)
    body_ok(b2)
    for b in (b1, b2):
        for term in ('\\end{verbatim}', '\\end{' + name + '}'):
            for i in range(len(b) - len(term) + 1):
                SX.assume(SX.Not(SX.s_eq(b[i:i + len(term)], term)))
    pre, post = CTX[ci]
    src = pre + '\\begin{verbatim}' + b1 + '\\end{verbatim}x\\begin{' + name + '}' + b2 + '\\end{' + name + '}' + post
    det = lambda: {'source': src, 'skip_envs': name}
    try:
        soup = TexSoup(src, skip_envs=(name,))
    except Exception as e:
        SX.check(False, 'C11:parse-error:' + type(e).__name__, lambda: dict(det(), error=repr(e)[:200]))
        return ('parse-fails',)
    SX.check(str(soup) == src, 'C11:roundtrip', lambda: dict(det(), output=str(soup)))
    for nm, body in (('verbatim', b1), (name, b2)):
        envs = soup.find_all(nm)
        SX.check(len(envs) == 1, 'C11:env-count', lambda: dict(det(), env=nm, found=len(envs)))
        if len(envs) == 1:
            allc = envs[0].expr.all
            SX.check(''.join([SX.raw(str(x)) for x in allc]) == body and len(list(envs[0].children)) == 0, 'C11:body-text',
                     lambda: dict(det(), env=nm, body=[SX.raw(str(x)) for x in allc]))
    SX.check(soup.find('b') is None, 'C11:body-parsed', det)
    return ('ok', str(soup))


def c11_without_option(ci):
    """without skip_envs the same (benign) body is parsed normally"""
    name = SX.fresh(1)
    SX.assume(SX.ch_in(name, LETTERS))
    SX.assume(SX.Not(SX.ch_among(name, 'efworb')))
    t = SX.fresh(1)
    SX.assume(SX.Not(SX.ch_among(t, '\\{}$%[]\x00\x7f\r')))
    pre, post = CTX[ci]
    body = 'a' + t + '\\b{c}$d$'
    src = pre + '\\begin{' + name + '}' + body + '\\end{' + name + '}' + post
    plain = TexSoup(src)
    skipped = TexSoup(src, skip_envs=(name,))
    det = lambda: {'source': src}
    SX.check(plain.find('b') is not None and len(plain.find_all('$')) == 1 + (ci == 4), 'C11:not-parsed-without-option', det)
    SX.check(skipped.find('b') is None and len(skipped.find_all('$')) == (ci == 4), 'C11:parsed-despite-option', det)
    SX.check(str(plain) == src and str(skipped) == src, 'C11:roundtrip', det)
    return ('ok', str(plain))
