"""Skeleton sets for the document-level checks: deterministic pair/3-gram cover + seed-dependent extras,
split into symbolisation variants (<= 4 symbolic characters each)."""
import os
import pickle
import sys

VERIF = os.path.dirname(os.path.dirname(os.path.abspath(__file__)))
sys.path.insert(0, VERIF)
from symtex import skeleton as K  # noqa: E402


def scenario_docs():
    """the scenarios named in the properties' why_tests_cant, as explicit skeletons"""
    T = lambda n=1, **o: {'k': 'text', 's': K.H('TEXT', n, **o)}
    C = lambda s: {'k': 'text', 's': s}
    N = lambda: K.H('NAME', 1)
    cmd = lambda name, *args: {'k': 'cmd', 'name': name, 'args': list(args)}
    br = lambda *b: {'k': 'brace', 'body': list(b)}
    bk = lambda *b: {'k': 'bracket', 'body': list(b)}
    math = lambda d, *b: {'k': 'math', 'd': d, 'body': list(b)}
    item = lambda args, *b: {'k': 'item', 'args': args, 'body': list(b)}
    lst = lambda *items, lead='': {'k': 'list', 'name': 'itemize', 'lead': lead, 'items': list(items)}
    env = lambda name, args, *b: {'k': 'env', 'name': name, 'args': args, 'body': list(b)}
    D = ('$', '$')
    DD = ('$$', '$$')
    docs = [
        # whitespace run before $ inside an \item
        [lst(item([], T(2, nl=True), math(D, T()), T()))],
        [lst(item([], T(1, nl=True), math(D, T())), item([bk(T())], T(1), math(DD, T())), lead='\n')],
        # comment + newline inside an optional argument
        [cmd(N(), bk(T(), {'k': 'comment', 's': '%c]\n'}, T()), br(T()))],
        [env(N(), [bk({'k': 'comment', 's': '%\n'}, T())], T())],
        # group after an environment
        [env(N(), [], T()), {'k': 'group', 'body': [T()]}, T()],
        # math after an item, adjacent math of different kinds
        [math(DD, T()), math(D, T()), T()],
        [lst(item([], math(('\\(', '\\)'), T()), T()), item([], T(1, nl=True)))],
        # definitions with \begin / \end inside
        [{'k': 'def', 'cmd': 'newcommand', 'name': N(), 'nargs': None, 'inner': ('begin', K.H('NAME', 1))}, T()],
        [{'k': 'def', 'cmd': 'renewcommand', 'name': N(), 'nargs': '1', 'inner': ('end', K.H('NAME', 1))},
         env(N(), [], T())],
        # verbatim with hostile body inside an environment
        [env(N(), [], {'k': 'verb', 'name': 'verbatim', 's': ' $\\a{ }[\n'}, T())],
        # line break followed by text
        [{'k': 'lbr', 's': '\\\\'}, T(2), {'k': 'group', 'body': [{'k': 'lbr', 's': '\\\\'}, T(2)]}],
        # nested arguments
        [cmd(N(), br(cmd(N(), bk(T()), br(cmd(N(), br(T()))))))],
        [{'k': 'mathenv', 'name': 'align*', 'body': [T(), cmd(N(), br(T())), {'k': 'lbr', 's': '\\\\'}, T()]}],
        # \\begin / \\end nested deeper inside a definition body stay commands
        [{'k': 'def', 'cmd': 'newcommand', 'name': N(), 'nargs': None, 'inner': ('nested-begin', K.H('NAME', 1))}, T()],
        [{'k': 'def', 'cmd': 'providecommand', 'name': N(), 'nargs': '1', 'inner': ('nested-end', K.H('NAME', 1))}],
        [{'k': 'def', 'cmd': 'renewcommand', 'name': N(), 'nargs': '2', 'inner': ('begin', K.H('NAME', 1))}, T()],
        # a line break followed by text (any 4 characters)
        [{'k': 'group', 'body': [{'k': 'lbr', 's': '\\\\'}, T(4)]}],
        [math(D, C('a'), {'k': 'lbr', 's': '\\\\'}, T(4))],
        # a group with a list directly after a math environment
        [{'k': 'mathenv', 'name': 'math', 'body': [T()]}, {'k': 'group', 'body': [lst(item([], T(1, nl=True)))]}],
        [{'k': 'mathenv', 'name': 'equation', 'body': [T()]}, C('\n'), {'k': 'group', 'body': [lst(item([], C(' a')))]}, T()],
        # three and four arguments whose texts may coincide (the solver chooses)
        [cmd(N(), br(T()), br(T()), br(T())), T()],
        [cmd(N(), bk(T()), bk(T()), br(T())), cmd('q', br(C('a')), br(C('a')), br(C('b')))],
        [env(N(), [br(T()), br(T()), br(C('z'))], T())],
        [cmd('q', bk(C('a')), bk(C('a')), br(C('b')), br(C('a')), br(C('c')))],
        # a text-only environment whose body starts with a blank line (two text tokens)
        [env(N(), [], C('\n'), C('\n  '), T(2), C(' old\n')), T()],
        [math(('\\[', '\\]'), C('\n'), C('\n'), T(), C('\n'))],
        # ten and more argument groups; named environments inside math
        [cmd(N(), *[br(C(ch)) for ch in 'abcdefghijk']), T()],
        [env(N(), [br(C(ch)) for ch in 'abcdefghij'], T())],
        [math(D, env('array', [br(C('cc'))], C('a & b'), {'k': 'lbr', 's': '\\\\'}, T()), T())],
        [{'k': 'mathenv', 'name': 'equation', 'body': [{'k': 'mathenv', 'name': 'split', 'body': [T(), C(' &= b')]}, T()]}],
        [math(('\\[', '\\]'), env(N(), [], T()), cmd(N(), br(env('cases', [], T()))))],
        # square brackets that do not follow a command are plain text
        [env(N(), [], T()), C('[h]'), T()],
        [{'k': 'group', 'body': [T()]}, C('[0,1)'), env(N(), [br(T())], C('x]'), T())],
        [math(D, C('[a,b)'), T()), C(' ]'), T()],
        # starred names next to their unstarred twins; a command / environment that is itself called "text"
        [cmd('section*', br(T())), cmd('section', br(T())), {'k': 'mathenv', 'name': 'align*', 'body': [T()]},
         {'k': 'mathenv', 'name': 'align', 'body': [T()]}],
        [cmd(K.H('NAME', 1), br(T())), cmd('text', br(cmd(N(), br(T())))), env('text', [], cmd('q', br(T())), T())],
        [math(D, C('x'), cmd('text', br(C('if '), cmd(N()))), T())],
        # environment names are arbitrary text between the braces
        [env('[tex]', [], T()), T()],
        [env('a-b', [br(T())], env('x.y', [], T()))],
        # plain TeX definitions: the defined command is an (unbraced) argument
        [{'k': 'tdef', 'name': N(), 'body': [T()]}, T(), cmd(N(), br(T()))],
        [C('p'), {'k': 'tdef', 'name': K.H('NAME', 2), 'body': [cmd(N(), br(T())), T()]}],
        # fixed-signature commands take exactly their signature; a following group is a group of the surroundings
        [cmd('textbf', br(T())), {'k': 'group', 'body': [T()]}, T()],
        [cmd('section', bk(T()), br(T())), {'k': 'group', 'body': [cmd(N(), br(T()))]}],
        [cmd('label', br(T())), {'k': 'group', 'body': []}, cmd('cap'), {'k': 'group', 'body': [T()]}],
        [math(D, cmd('infty'), {'k': 'group', 'body': [T()]}, cmd('in'), {'k': 'group', 'body': [T()]}, C('x'))],
        [cmd('noindent'), {'k': 'group', 'body': [T()]}, cmd('textbf', br(cmd(N(), br(T())))), {'k': 'group', 'body': [T()]}],
        # textually identical siblings with structure below them (views must go by identity, not by text)
        [cmd('a', br(cmd('b', br(C('x'))))), T(), cmd('a', br(cmd('b', br(C('x')))))],
        [lst(item([], math(D, C('x')), C('\n')), item([], math(D, C('x')), C('\n')))],
        [env('e', [], C('p'), {'k': 'group', 'body': [cmd('q', br(C('y')))]}, T(), {'k': 'group', 'body': [cmd('q', br(C('y')))]})],
        [cmd('c', bk(cmd('a', br(C('x')))), br(cmd('a', br(C('x'))), T())), math(DD, cmd('a', br(C('x'))))],
    ]
    return docs


def variants(doc, seed, cap=4):
    holes = K.hole_positions(doc)
    chunks = [[]]
    tot = 0
    for i in range(len(holes)):
        ln = K.get_leaf(*holes[i])[2]
        if chunks[-1] and tot + ln > cap:
            chunks.append([])
            tot = 0
        chunks[-1].append(i)
        tot += ln
    return [K.variant(doc, set(ch), seed) for ch in chunks]


_CACHE = {}


def cover_docs(tier, seed):
    """deterministic cover (seed independent) + VERIF_SEED dependent random extras"""
    key = (tier, seed)
    if key in _CACHE:
        return _CACHE[key]
    if tier == 'quick':
        docs, uni, cov = K.cover(0, pool=6000, depth=2, limit=None, maxlen=60)
        extras = [K.Gen(977 * (seed + 1) + i).doc(2) for i in range(60)]
    else:
        docs, uni, cov = K.cover(0, pool=20000, depth=2, limit=None, maxlen=70)
        d3, u3, c3 = K.cover(1, pool=6000, depth=3, limit=400, maxlen=110)
        docs = docs + d3
        uni, cov = uni + u3, cov + c3
        extras = [K.Gen(977 * (seed + 1) + i).doc(3) for i in range(400)]
    extras = [d for d in extras if d and len(K.doc_src_len(d)) <= (70 if tier == 'quick' else 110)]
    res = (scenario_docs() + docs + extras, {'cover_items': uni, 'covered': cov, 'cover_skeletons': len(docs),
                                             'scenario_skeletons': len(scenario_docs()), 'seed_extras': len(extras)})
    _CACHE[key] = res
    return res


def name_variants(doc, seed, cap=3):
    """variants in which only NAME holes are symbolic (<= cap holes each); text holes get representatives"""
    holes = K.hole_positions(doc)
    idx = [i for i in range(len(holes)) if K.get_leaf(*holes[i])[1] == 'NAME']
    if not idx:
        return [K.variant(doc, set(), seed)]
    return [K.variant(doc, set(idx[k:k + cap]), seed) for k in range(0, len(idx), cap)]


def doc_units(tier, seed, hfile, fname, extra_args=(), names_only=False, stride=1, offset=0, blank_bias=False):
    docs, info = cover_docs(tier, seed)
    info = dict(info)
    units = []
    for di, d in enumerate(docs):
        if stride > 1 and di % stride != offset % stride and di >= info['scenario_skeletons']:
            continue
        vs = name_variants(d, seed * 7919 + di) if names_only else variants(d, seed * 7919 + di)
        for v in vs:
            units.append(dict(hfile=hfile, fname=fname, args=(v,) + tuple(extra_args), max_paths=20000))
    info['variants'] = len(units)
    return units, info
