"""C09: arguments attach by the one-line-break rule with exact contents (symbolic separators)."""
from TexSoup import TexSoup
#include oracles.py

LETTERS = [(65, 90), (97, 122)]
SPECIALS = '\\{}$%[]\x00\x7f'
CTX = [('', ''), ('\\begin{e}', '\\end{e}'), ('\\begin{itemize}\\item ', '\\end{itemize}'), ('\\z{', '}'), ('$', '$'),
       ('{', '}'), ('\\z[', ']'), ('\\begin{align}', '\\end{align}')]
BODIES_BR = ['x', '', 'a{]}b', 'a b', '{[}', '\\w{y}']
BODIES_BC = ['x', '', 'a]b', 'a[b', '[', ']', 'a{b}c', '\\w[y]{z}', '\\w \\v', '{a}\n{b}']


def SEP(n, first):
    s = SX.fresh(n)
    for ch in s:
        SX.assume(SX.Not(SX.ch_among(ch, SPECIALS)))
    if first and n:
        SX.assume(SX.Not(SX.ch_in(s[0], LETTERS + [(42, 42)])))
    return s


def attach(sep):
    blank = [SX.ch_among(c, ' \t\n\r') for c in sep]
    lf = [SX.ch_among(c, '\n\r') for c in sep]          # LF and CR each count as a line break
    two = [SX.And(lf[i], lf[j]) for i in range(len(sep)) for j in range(i + 1, len(sep))]
    return SX.And(*(blank + [SX.Not(SX.Or(*two))]))


STARRED = ['section*', 'cap*', 'label*', 'in*', 'textbf*', 'def*', 'item*', 'begin*', 'infty*', 'noindent*', 'cup*']


def c09(ci, nb, nc, seplens, bodyidx, tail, namelen):
    if isinstance(namelen, str):
        name = namelen                       # a concrete name outside the signature table (starred variants)
    else:
        star = namelen < 0
        name = SX.fresh(abs(namelen))
        for ch in name:
            SX.assume(SX.ch_in(ch, LETTERS))
        for w in ('e', 'z', 'w', 'in', 'def', 'cap', 'cup', 'big', 'Big', 'end'):  # names used by contexts/bodies; signature table
            if len(w) == abs(namelen) and not star:
                SX.assume(SX.Not(SX.s_eq(name, w)))
        if star:
            name = name + '*'
    groups = []
    for i in range(nb):
        groups.append('[' + BODIES_BR[(bodyidx + i) % len(BODIES_BR)] + ']')
    for i in range(nc):
        groups.append('{' + BODIES_BC[(bodyidx + i) % len(BODIES_BC)] + '}')
    seps = [SEP(seplens[i], i == 0) for i in range(len(groups))]
    if tail == '{u}':
        # a further brace group written directly behind the run belongs to the run
        groups.append('{u}')
        seps.append('')
        tail = ''
    pre, post = CTX[ci]
    src = pre + '\\' + name + ''.join([s + g for s, g in zip(seps, groups)]) + tail + post
    k = 0
    while k < len(groups) and SX.decide(attach(seps[k])):      # same decisions as the parser takes
        k += 1
    det = lambda: {'source': src, 'attached_expected': k, 'groups': groups}
    try:
        soup = TexSoup(src)
    except Exception as e:
        SX.check(False, 'C09:parse-fails:' + type(e).__name__, lambda: dict(det(), error=repr(e)[:200]))
        return ('parse-fails',)
    cmd = soup.find(name)
    SX.check(cmd is not None, 'C09:command-not-found', det)
    if cmd is None:
        return ('not-found',)
    got = [SX.raw(str(a)) for a in cmd.args]
    SX.check(len(got) == k, 'C09:arg-count', lambda: dict(det(), got=got))
    for a, g, obj in zip(got, groups[:k], list(cmd.args)):
        SX.check(a == g, 'C09:arg-text', lambda: dict(det(), got=got))
        SX.check(isinstance(obj, BracketGroup if g[0] == '[' else BraceGroup), 'C09:arg-kind', lambda: dict(det(), got=got))
        SX.check(SX.raw(str(obj.string)) == g[1:-1], 'C09:arg-contents', lambda: dict(det(), string=SX.raw(str(obj.string)), expected=g[1:-1]))
    rest = ''.join([s + g for s, g in list(zip(seps, groups))[k:]])
    expout = pre + '\\' + name + ''.join(groups[:k]) + rest + tail + post
    SX.check(str(soup) == expout, 'C09:rest-kept', lambda: dict(det(), output=str(soup), expected=expout))
    SX.check(SX.raw(str(cmd)) == '\\' + name + ''.join(groups[:k]), 'C09:command-extent', lambda: dict(det(), command=SX.raw(str(cmd))))
    return ('ok', k, str(soup))


def c09_bare(ci, n, which):
    """a bracket that does not follow a command is ordinary text and needs no partner"""
    t = SEP(n, False)
    pre, post = CTX[ci]
    if ci in (6,):
        return ('skip',)
    br = '[' if which == 0 else ']'
    src = pre + 'p' + t + br + 'q' + post
    try:
        soup = TexSoup(src)
    except Exception as e:
        SX.check(False, 'C09:bare-bracket-fails:' + type(e).__name__, lambda: {'source': src, 'error': repr(e)[:200]})
        return ('parse-fails',)
    SX.check(str(soup) == src, 'C09:bare-bracket-text', lambda: {'source': src, 'output': str(soup)})
    SX.check(len([x for x in soup.descendants if isinstance(x, TexNode) and isinstance(x.expr, BracketGroup)]) == 0,
             'C09:bare-bracket-grouped', lambda: {'source': src})
    return ('ok', str(soup))


def c09_trailing(ci, sepn, first):
    """after a brace argument and a directly adjacent bracket group, a blank-separated brace group stays in the text"""
    name = SX.fresh(1)
    SX.assume(SX.ch_in(name, LETTERS))
    SX.assume(SX.Not(SX.ch_among(name, 'ezw')))
    sep = SX.fresh(sepn)
    for ch in sep:
        SX.assume(SX.ch_among(ch, ' \t\n\r'))
    pre, post = CTX[ci]
    head = ['{a}[b]', '[o]{a}[b]', '{a}{b}[c]'][first]
    src = pre + '\\' + name + head + sep + '{c}' + post
    det = lambda: {'source': src}
    try:
        soup = TexSoup(src)
    except Exception as e:
        SX.check(False, 'C09:parse-fails:' + type(e).__name__, lambda: dict(det(), error=repr(e)[:200]))
        return ('parse-fails',)
    cmd = soup.find(name)
    SX.check(cmd is not None, 'C09:command-not-found', det)
    if cmd is None:
        return ('not-found',)
    got = [SX.raw(str(a)) for a in cmd.args]
    SX.check('{c}' not in got, 'C09:group-behind-blank-attached', lambda: dict(det(), got=got))
    SX.check(str(soup) == src, 'C09:rest-kept', lambda: dict(det(), output=str(soup)))
    return ('ok', str(soup))
