"""C03 search returns exactly the matching nodes."""
PROPERTY = 'C03'


def plan(tier, seed):
    from vt import cover
    units = []
    info = {}
    for qk in ('fresh', 'names', 'lists', 'exprs'):
        us, info = cover.doc_units(tier, seed, 'doc.py', 'doc_search', extra_args=(qk,), names_only=True,
                                   stride=(3 if tier == 'quick' else 1), offset={'fresh': 0, 'names': 1, 'lists': 2, 'exprs': 0}[qk])
        units += us
    return dict(units=units,
                bounds=dict(info, queries='symbolic one- and two-letter names; every name in the document; absent names; lists of two names; full-expression and \\begin{..} queries',
                            roots='the root and the first 5 descendant nodes as search roots',
                            names='up to 3 command/environment names per variant are symbolic (NAME holes), so name collisions are solver choices'),
                outside=['attribute access with symbolic names', '**attrs other than the name'],
                assumptions=['expected matches are computed by an own traversal (argument groups, bodies) of the parsed expression tree; C02 ties that tree to the source'])
