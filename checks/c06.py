"""C06 totality: tree or diagnostic error on every input, both tolerance modes."""
PROPERTY = 'C06'


def plan(tier, seed):
    nmax = 4 if tier == 'quick' else 5
    units = []
    for tol in (0, 1):
        for n in range(0, nmax + 1):
            units.append(dict(hfile='free.py', fname='c06_free', args=(n, tol), summary_mode=True,
                              split=(64 if n >= 4 else (8 if n == 3 else 0)), hang_label='C06:hang'))
    kinds = ['group', 'bracket-arg', 'brace-arg', 'env', 'math-group', 'env-cmd', 'item-cmd', 'item-group', 'item-env', 'cmd-env',
             'env-mismatch', 'open-only', 'dollar-group', 'env-arg', 'mathenv-cmd', 'item-textbf', 'env-section', 'item-label-cmd']
    for kind in kinds:
        for d in ((40,) if tier == 'quick' else (8, 16, 24, 40)):
            for tol in (0, 1):
                units.append(dict(hfile='free.py', fname='c06_depth', args=(kind, d, tol), hang_label='C06:hang',
                                  step_budget=400000))
    from vt import faultplan
    units += faultplan.fault_units(tier, seed)
    return dict(units=units,
                bounds={'nesting': '18 container kinds (groups, arguments, environments, items, math, mixed, mismatched and unclosed) nested to depth 40 around one free character, both tolerance modes; step budget 400k calls then 5 s native watchdog', 'faulted_documents': 'every truncation (+ one free character), substitution of one position by a free character, insertion of a free character, deletion and adjacent transposition at every position of %d base documents (<= 40 / 60 characters)' % len(faultplan.base_docs(tier, seed)), 'free_strings': 'every string of length 0..%d over all code points 0..0x10FFFF' % nmax,
                        'tolerance': [0, 1], 'mode': 'summary (lazy categories)'},
                outside=['strings longer than %d characters unless covered by the skeleton faults' % nmax],
                assumptions=['diagnostic = EOFError | TypeError "[Line: ..." | AssertionError with one of the two parser messages'])


def signature(v):
    d = v.get('detail') or {}
    return '%s|%s' % (v['label'], d.get('sig', '?')) if isinstance(d, dict) else v['label']
