"""C14: renaming, re-stringing and re-argumenting change exactly that part."""
from TexSoup import TexSoup
from TexSoup.data import TexArgs
from symtex import skeleton as K
#include oracles.py

SPECIALS = '\\{}$%[]\x00\x7f\r'


def spans(expr, base, out):
    """out[id(e)] = (start, end); mirror of the serialisers"""
    if isinstance(expr, TexText) or not isinstance(expr, TexExpr):
        n = len(SX.raw(str(expr)))
        out[id(expr)] = (base, base + n)
        return n
    pos = base
    if isinstance(expr, TexNamedEnv):
        pos += len('\\begin{%s}' % SX.raw(expr.name))
        tail = len('\\end{%s}' % SX.raw(expr.name))
    elif isinstance(expr, TexEnv):
        pos += 0 if expr.name == '[tex]' else len(expr.begin)
        tail = 0 if expr.name == '[tex]' else len(expr.end)
    else:
        pos += 1 + len(SX.raw(expr.name))
        tail = 0
    for a in expr.args:
        pos += spans(a, pos, out)
    for c in expr._contents:
        pos += spans(c, pos, out)
    pos += tail
    out[id(expr)] = (base, pos)
    return pos - base


def exprs_of(e, out):
    for a in e.args:
        if isinstance(a, TexExpr):
            for x in a._contents:
                if isinstance(x, TexExpr) and not isinstance(x, TexText):
                    out.append(x)
                    exprs_of(x, out)
    for x in e._contents:
        if isinstance(x, TexExpr) and not isinstance(x, TexText):
            out.append(x)
            exprs_of(x, out)
    return out


def node_for(soup, expr):
    for n in soup.descendants:
        if isinstance(n, TexNode) and n.expr is expr:
            return n
    return None


def setup(doc):
    d = K.instantiate(doc, SX)
    src = K.doc_src(d)
    soup = TexSoup(src)
    SX.assume(str(soup) == src)
    sp = {}
    spans(soup.expr, 0, sp)
    return src, soup, sp


def plain_name(n):
    return n not in K.RESERVED and not n.endswith('*')


def fresh_name(n):
    s = SX.fresh(n)
    for ch in s:
        SX.assume(SX.ch_in(ch, K.LETTERS))
    for w in K.RESERVED:
        if len(w) == n:
            SX.assume(SX.Not(SX.s_eq(s, w)))
    return s


def reparse_same(soup, label, det):
    out = SX.raw(str(soup))
    try:
        again = TexSoup(out)
    except Exception as e:
        SX.check(False, label + ':reparse-fails:' + type(e).__name__, lambda: dict(det(), error=repr(e)[:200]))
        return
    SX.check(doc_shape(again) == doc_shape(soup), label + ':reparse-shows-other-change',
             lambda: dict(det(), edited=repr(doc_shape(soup))[:400], reparsed=repr(doc_shape(again))[:400]))


def c14_rename(doc, k, nlen):
    src, soup, sp = setup(doc)
    cands = [x for x in exprs_of(soup.expr, []) if isinstance(x, (TexCmd, TexNamedEnv))
             and (SX.is_symbolic(SX.raw(x.name)) or plain_name(SX.raw(x.name)) or SX.raw(x.name) == 'item')]
    if k >= len(cands):
        return ('skip',)
    e = cands[k]
    old = SX.raw(e.name)
    # a symbolic old name is a NAME hole (already different from every reserved name)
    new = fresh_name(nlen)
    SX.assume(SX.Not(SX.s_eq(new, old)))
    node = node_for(soup, e)
    if node is None:
        return ('skip',)
    start, end = sp[id(e)]
    n_old0 = soup.count(old)
    n_new0 = soup.count(new)
    det = lambda: {'source': src, 'target': src[start:end], 'old': old, 'new': new, 'result': SX.raw(str(soup))}
    try:
        node.name = new
    except Exception as ex:
        SX.check(False, 'C14:rename-raises:' + type(ex).__name__, det)
        return ('raised',)
    if isinstance(e, TexNamedEnv):
        b = len('\\begin{')
        t = end - len('\\end{%s}' % old)
        exp = src[:start + b] + new + src[start + b + len(old):t + 5] + new + src[t + 5 + len(old):]
    else:
        exp = src[:start + 1] + new + src[start + 1 + len(old):]
    SX.check(SX.raw(str(soup)) == exp, 'C14:rename-local', lambda: dict(det(), expected=exp))
    SX.check(soup.count(old) == n_old0 - 1, 'C14:rename-search-old', det)
    SX.check(soup.count(new) == n_new0 + 1, 'C14:rename-search-new', det)
    f = [n for n in soup.find_all(new) if n.expr is e]
    SX.check(len(f) == 1, 'C14:rename-target-not-found-by-new-name', det)
    if isinstance(e, TexNamedEnv):
        fb = [n for n in soup.find_all('\\begin{' + new + '}') if n.expr is e]
        SX.check(len(fb) == 1, 'C14:rename-target-not-found-by-new-opening', det)
        fo = [n for n in soup.find_all('\\begin{' + old + '}') if n.expr is e]
        SX.check(len(fo) == 0, 'C14:rename-target-still-found-by-old-opening', det)
    if old != 'item':        # (a renamed \\item keeps its body in the tree; re-read, the body becomes siblings: name class changed)
        reparse_same(soup, 'C14:rename', det)
    return ('ok', SX.raw(str(soup)))


def c14_string(doc, k, nlen):
    src, soup, sp = setup(doc)
    cands = []
    for x in exprs_of(soup.expr, []):
        if isinstance(x, TexCmd) and len(x.args) == 1 and isinstance(x.args[0], (BraceGroup, BracketGroup)) and SX.raw(x.name) != 'item':
            cands.append(x)
        elif isinstance(x, TexNamedEnv) and len(x.args) == 0 and len(x._contents) >= 1 \
                and all([isinstance(c, TexText) for c in x._contents]) \
                and (SX.is_symbolic(SX.raw(x.name)) or plain_name(SX.raw(x.name))):
            # text-only: exactly one of its text children is not whitespace-only (the contents view shows one text)
            nonblank = [c for c in x._contents
                        if not (len(SX.raw(str(c))) > 0 and SX.decide(SX.And(*[SX.ch_ws(ch) for ch in SX.raw(str(c))])))]
            if len(nonblank) == 1:
                cands.append(x)
    if k >= len(cands):
        return ('skip',)
    e = cands[k]
    node = node_for(soup, e)
    if node is None:
        return ('skip',)
    new = SX.fresh(nlen)
    for ch in new:
        SX.assume(SX.Not(SX.ch_among(ch, SPECIALS)))
    if isinstance(e, TexNamedEnv):
        # text directly after \begin{name}: must not look like an argument opener behind blanks (WF1) - no [ { in TEXT anyway
        pass
    start, end = sp[id(e)]
    det = lambda: {'source': src, 'target': src[start:end], 'new': new, 'result': SX.raw(str(soup))}
    if isinstance(e, TexCmd):
        a0, a1 = sp[id(e.args[0])]
    else:
        a0 = sp[id(e._contents[0])][0] - 1
        a1 = sp[id(e._contents[-1])][1] + 1
    try:
        node.string = new
    except Exception as ex:
        SX.check(False, 'C14:string-raises:' + type(ex).__name__, lambda: dict(det(), error=repr(ex)[:200]))
        return ('raised',)
    exp = src[:a0 + 1] + new + src[a1 - 1:]
    SX.check(SX.raw(str(soup)) == exp, 'C14:string-local', lambda: dict(det(), expected=exp))
    if isinstance(e, TexCmd):
        got = node.string
        SX.check(SX.raw(str(got)) == new, 'C14:string-readback', det)
    reparse_same(soup, 'C14:string', det)
    return ('ok', SX.raw(str(soup)))


def c14_args(doc, k, mode):
    src, soup, sp = setup(doc)
    cands = [x for x in exprs_of(soup.expr, []) if isinstance(x, (TexCmd, TexNamedEnv)) and len(x.args) >= 1
             and all([isinstance(a, (BraceGroup, BracketGroup)) for a in x.args])
             and (SX.is_symbolic(SX.raw(x.name)) or plain_name(SX.raw(x.name)))]
    if k >= len(cands):
        return ('skip',)
    e = cands[k]
    node = node_for(soup, e)
    if node is None:
        return ('skip',)
    groups = list(e.args)
    texts = [src[sp[id(g)][0]:sp[id(g)][1]] for g in groups]
    n = len(groups)
    try:
        return c14_args_apply(src, soup, sp, e, node, groups, texts, n, mode)
    except (AssertionError, TypeError, ValueError, IndexError, AttributeError) as ex:
        SX.check(False, 'C14:args-raises:' + type(ex).__name__, lambda: {'source': src, 'mode': mode, 'error': repr(ex)[:200]})
        return ('raised', mode)


def c14_args_apply(src, soup, sp, e, node, groups, texts, n, mode):
    if mode == 'reverse':
        order = list(range(n))[::-1]
        node.args.reverse()
    elif mode == 'prefix':
        order = list(range(n))[:n - 1]
        node.args = node.args[:n - 1]
    elif mode == 'tail':
        order = list(range(n))[1:]
        node.args = node.args[1:]
    elif mode == 'rotate':
        order = list(range(1, n)) + [0]
        node.args = TexArgs([groups[i] for i in order])
    elif mode == 'pop-insert':
        order = list(range(1, n)) + [0]
        g = node.args.pop(0)
        node.args.insert(len(node.args), g)
    elif mode == 'reassign-same':
        order = list(range(n))[::-1]
        a = node.args
        a.reverse()
        node.args = a            # the node's own list object, mutated and assigned back
    elif mode == 'swap-items':
        if n < 2:
            return ('skip',)
        order = [1, 0] + list(range(2, n))
        node.args[0], node.args[1] = node.args[1], node.args[0]
    elif mode == 'del-item':
        order = list(range(1, n))
        del node.args[0]
    elif mode == 'empty-slice':
        order = []
        node.args = node.args[:0]
    elif mode == 'assign-new':
        order = None
        node.args = TexArgs(['{n}', '[m]'])
    else:
        raise AssertionError(mode)
    a0 = sp[id(groups[0])][0]
    a1 = sp[id(groups[-1])][1]
    new = '{n}[m]' if order is None else ''.join([texts[i] for i in order])
    exp = src[:a0] + new + src[a1:]
    det = lambda: {'source': src, 'target': src[sp[id(e)][0]:sp[id(e)][1]], 'mode': mode, 'result': SX.raw(str(soup)), 'expected': exp}
    SX.check(SX.raw(str(soup)) == exp, 'C14:args-local', det)
    if order is not None:
        SX.check(len(node.args) == len(order) and all([a is groups[i] for a, i in zip(list(node.args), order)]), 'C14:args-elements', det)
    kinds = ''.join(['k' if t[0] == '[' else 'b' for t in ([texts[i] for i in order] if order is not None else ['{n}', '[m]'])])
    following = src[a1:a1 + 1]
    # the re-parse comparison is claimed for brackets-then-braces runs that cannot capture following text
    if 'bk' not in kinds and len(kinds) > 0 and following not in ('{', '['):
        if not (len(kinds) < n and following in (' ', '\t', '\n')):
            reparse_same(soup, 'C14:args', det)
    return ('ok', SX.raw(str(soup)))
