"""C12: math regions are delimited correctly and tolerate unbalanced brackets."""
from TexSoup import TexSoup
from TexSoup.data import TexMathModeEnv, TexDisplayMathModeEnv, TexMathEnv, TexDisplayMathEnv
#include oracles.py

LETTERS = [(65, 90), (97, 122)]
SPECIALS = '\\{}$%\x00\x7f\r'           # brackets and parentheses are allowed in math text holes
KINDS = [('$', '$', 'TexMathModeEnv', '$'), ('$$', '$$', 'TexDisplayMathModeEnv', '$$'),
         ('\\(', '\\)', 'TexMathEnv', 'math'), ('\\[', '\\]', 'TexDisplayMathEnv', 'displaymath')] + \
    [('\\begin{%s}' % n, '\\end{%s}' % n, 'TexNamedEnv', n) for n in
     ('align', 'align*', 'alignat', 'array', 'displaymath', 'eqnarray', 'eqnarray*', 'equation', 'equation*', 'flalign',
      'flalign*', 'gather', 'gather*', 'math', 'multline', 'multline*', 'split')]
NKINDS = len(KINDS)
CTX = [('', ''), ('p ', ' q'), ('\\begin{e}', '\\end{e}'), ('\\begin{itemize}\\item a ', '\\end{itemize}'), ('\\z{', '}'), ('{', '}'),
       ('\\begin{e}[o]', '\\end{e}'), ('p\\\\', '\\\\q'), ('\\begin{e}x\\\\', '\\end{e}'),
       ('\\begin{verbatim}a$b\\end{verbatim}', ''), ('%$\n', '\\begin{lstlisting}$$$\\end{lstlisting}')]
SIZES = ['left', 'right', 'big', 'Big', 'bigg', 'Bigg']
MULTI = ['\\{', '\\}', '\\langle', '\\rangle', '\\lfloor', '\\rfloor', '\\lceil', '\\rceil', '\\ulcorner', '\\urcorner', '\\lbrack',
         '\\rbrack']


def M(n, after_cmd=False):
    """math text hole: any code point except \\ { } $ % NUL DEL CR (so ( ) [ ] are included)"""
    s = SX.fresh(n)
    for ch in s:
        SX.assume(SX.Not(SX.ch_among(ch, SPECIALS)))
    if after_cmd and n:
        # directly after a command name: not a letter or * (would extend the name), not a blank or bracket
        # (an opening bracket or brace there, possibly behind blanks, is an argument: the statement excludes it)
        SX.assume(SX.Not(SX.ch_in(s[0], LETTERS + [(42, 42)])))
        SX.assume(SX.Not(SX.ch_among(s[0], '[ \t\n')))
    return s


def BL(n):
    s = SX.fresh(n)
    for ch in s:
        SX.assume(SX.ch_among(ch, ' \t\n'))
    return s


def body_of(bi, ac=False):
    """(source text, names of commands that must be findable inside); ac: the body directly follows \\begin{name}"""
    if bi == 0:
        return M(2, ac), []
    if bi == 1:
        return M(1, ac) + '\\$' + M(1), []
    if bi == 2:
        return '\\c{' + M(1) + '}' + M(1, True), ['c']
    if bi == 3:
        return ('a' if ac else '') + '{' + M(1) + '}' + M(1), []
    if bi == 4:
        return '(' + M(1) + '[' + M(1), []
    if bi == 5:
        return M(1, ac) + ')' + M(1) + ']', []
    if bi == 6:
        return 'a' + M(2) + '\\d' + M(1, True), ['d']
    if bi == 7:
        return '\\cup[' + M(1) + ']' + M(1), ['cup']
    if bi == 8:
        return 'x\\in[' + M(1) + ',\\infty)' + M(1), ['in', 'infty']
    if bi == 9:
        return '\\notin]' + M(1) + '\\cap(' + M(1), ['notin', 'cap']
    if bi == 10:
        return '\\frac{' + M(1) + '}{' + M(1) + '}', ['frac']
    if bi == 11:
        return M(1, ac) + '^{' + M(1) + '}_' + M(1), []
    if bi == 12:
        return 'x_{i\\in[' + M(1) + ',1)}' + M(1), ['in']
    if bi == 13:
        return '\\frac{\\cup[' + M(1) + '}{\\infty]' + M(1) + '}', ['frac', 'cup', 'infty']
    if bi == 14:
        return ('a' if ac else '') + '{\\notin(' + M(1) + ']}^{\\cap]' + M(1) + '}', ['notin', 'cap']
    if bi == 15:
        return 'a\\\\\\left[' + M(1, True) + '\\right)' + M(1, True), []
    if bi == 16:
        return M(1, ac) + '\\\\\\Big|' + M(1, True) + '\\\\ \\bigg]' + M(1, True), []
    if bi == 17:
        return 'x\\text{a $' + M(1) + '$ b}' + M(1, True), ['text', '$']
    if bi == 18:
        return 'a\\\\\\$' + M(1) + '\\\\\\%' + M(1, True) + '\\\\\\{', []
    if bi == 19:
        # blank-separated unbalanced bracket behind a command that already has its brace arguments (seeded C12-r5-2)
        return '\\frac{' + M(1) + '}{2}' + BL(1) + '[' + M(1), ['frac']
    if bi == 20:
        return '\\c{' + M(1) + '}' + BL(1) + '[0,' + M(1) + ')', ['c']
    raise AssertionError(bi)


NBODIES = 21


def find_math(soup, cls, name):
    return [n for n in soup.descendants if isinstance(n, TexNode) and type(n.expr).__name__ == cls and SX.raw(n.expr.name) == name]


def check_region(soup, src, ki, body, inner, det, nth=0, total=1):
    begin, end, cls, name = KINDS[ki]
    nodes = find_math(soup, cls, name)
    SX.check(len(nodes) == total, 'C12:math-node-count', lambda: dict(det(), found=len(nodes), kind=cls))
    if len(nodes) != total:
        return
    node = nodes[nth]
    e = node.expr
    SX.check(SX.raw(e.begin) == begin and SX.raw(e.end) == end, 'C12:delimiters', det)
    got = ''.join([SX.raw(str(x)) for x in e._contents])
    SX.check(got == body and len(e.args) == 0, 'C12:body-exact', lambda: dict(det(), body=got, expected=body))
    for nm in inner:
        SX.check(len(node.find_all(nm)) >= 1, 'C12:command-inside-not-found', lambda: dict(det(), name=nm))
    odd = [n for n in soup.descendants if isinstance(n, TexNode) and isinstance(n.expr, TexCmd) and SX.raw(n.expr.name) in ('$', '%', '{', '}', '&', '#', '_')]
    SX.check(len(odd) == 0, 'C12:escaped-symbol-became-command', lambda: dict(det(), commands=[SX.raw(str(n)) for n in odd]))


def c12_region(ki, bi, ci):
    begin, end, cls, name = KINDS[ki]
    if bi == 17 and ki == 0:
        return ('skip',)        # a $ inside $..$ closes it
    body, inner = body_of(bi, ki >= 4)
    pre, post = CTX[ci]
    src = pre + begin + body + end + post
    det = lambda: {'source': src}
    try:
        soup = TexSoup(src)
    except Exception as e:
        SX.check(False, 'C12:parse-fails:' + type(e).__name__, lambda: dict(det(), error=repr(e)[:200]))
        return ('parse-fails',)
    SX.check(str(soup) == src, 'C12:roundtrip', lambda: dict(det(), output=str(soup)))
    check_region(soup, src, ki, body, inner, det)
    return ('ok', str(soup))


def c12_sizing(ki, si, multi, ci):
    """sizing command + delimiter (symbolic single character, or a concrete multi-character one) inside math"""
    begin, end, cls, name = KINDS[ki]
    if multi is None:
        d = SX.fresh(1)
        SX.assume(SX.ch_among(d, '()<>[].|'))
        d2 = SX.fresh(1)
        SX.assume(SX.ch_among(d2, '()<>[].|'))
    else:
        d = MULTI[multi]
        d2 = MULTI[(multi + 1) % len(MULTI)]
    t = M(1, True)
    body = '\\' + SIZES[si] + d + t + '\\' + SIZES[(si + 1) % len(SIZES)] + d2
    pre, post = CTX[ci]
    src = pre + begin + body + end + post
    det = lambda: {'source': src}
    try:
        soup = TexSoup(src)
    except Exception as e:
        SX.check(False, 'C12:sizing-parse-fails:' + type(e).__name__, lambda: dict(det(), error=repr(e)[:200]))
        return ('parse-fails',)
    SX.check(str(soup) == src, 'C12:roundtrip', lambda: dict(det(), output=str(soup)))
    check_region(soup, src, ki, body, [], det)
    return ('ok', str(soup))


def c12_adjacent(k1, k2, ci):
    """two adjacent regions of different kinds"""
    b1, e1, c1, n1 = KINDS[k1]
    b2, e2, c2, n2 = KINDS[k2]
    x, y = M(1, k1 >= 4), M(1, k2 >= 4)
    pre, post = CTX[ci]
    src = pre + b1 + x + e1 + b2 + y + e2 + post
    det = lambda: {'source': src}
    try:
        soup = TexSoup(src)
    except Exception as e:
        SX.check(False, 'C12:adjacent-parse-fails:' + type(e).__name__, lambda: dict(det(), error=repr(e)[:200]))
        return ('parse-fails',)
    SX.check(str(soup) == src, 'C12:roundtrip', lambda: dict(det(), output=str(soup)))
    same = (c1 == c2 and n1 == n2)
    check_region(soup, src, k1, x, [], det, 0, 2 if same else 1)
    check_region(soup, src, k2, y, [], det, 1 if same else 0, 2 if same else 1)
    return ('ok', str(soup))


def c12_escaped_dollar(ci, n):
    """an escaped \\$ never opens or closes math"""
    t = M(n)
    pre, post = CTX[ci]
    src = pre + 'a\\$' + t + '$x\\$y$' + '\\$' + post
    det = lambda: {'source': src}
    try:
        soup = TexSoup(src)
    except Exception as e:
        SX.check(False, 'C12:escaped-dollar-parse-fails:' + type(e).__name__, lambda: dict(det(), error=repr(e)[:200]))
        return ('parse-fails',)
    SX.check(str(soup) == src, 'C12:roundtrip', lambda: dict(det(), output=str(soup)))
    check_region(soup, src, 0, 'x\\$y', [], det)
    return ('ok', str(soup))
