"""C12 math regions are delimited correctly and tolerate unbalanced brackets."""
PROPERTY = 'C12'


def plan(tier, seed):
    nk, nb, nc, ns, nm = 21, 21, 11, 6, 12
    units = []
    q = tier == 'quick'
    for ki in range(nk):
        for bi in range(nb):
            for ci in range(nc):
                if q and (ki + bi + ci + seed) % 9 and not (bi >= 17 and (ki + ci + seed) % 5 == 0):
                    continue
                units.append(dict(hfile='math.py', fname='c12_region', args=(ki, bi, ci)))
        for si in range(ns):
            for ci in range(nc):
                if q and (ki + si + ci + seed) % 9:
                    continue
                units.append(dict(hfile='math.py', fname='c12_sizing', args=(ki, si, None, ci)))
            for mi in range(nm):
                if (ki + si + mi + seed) % (9 if q else 2):
                    continue
                units.append(dict(hfile='math.py', fname='c12_sizing', args=(ki, si, mi, (ki + mi) % nc)))
    pairs = [(1, 0), (2, 0), (0, 2), (0, 3), (3, 0), (2, 3), (3, 2), (1, 2), (11, 0), (0, 11), (2, 2), (3, 3), (11, 11), (1, 1), (1, 3)]
    for k1, k2 in pairs:
        for ci in range(nc):
            units.append(dict(hfile='math.py', fname='c12_adjacent', args=(k1, k2, ci)))
    for ci in range(nc):
        for n in (0, 1, 2):
            units.append(dict(hfile='math.py', fname='c12_escaped_dollar', args=(ci, n)))
    return dict(units=units,
                bounds={'kinds': 'the four delimiter pairs and all 17 named math environments', 'bodies': '%d body templates with math-text holes over all code points except \\ { } $ %% NUL DEL CR (brackets and parentheses included), %s' % (nb, 'every 9th (kind, body, context) combination' if q else 'all combinations'),
                        'sizing': 'six sizing prefixes x symbolic single-character delimiter in ( ) < > [ ] . | and the 12 multi-character delimiters',
                        'contexts': 'top, between text, env body, item, brace argument, group, env with bracket argument, directly after / before a line break',
                        'adjacent': '%d ordered pairs of kinds' % len(pairs)},
                outside=['[ or { directly (or behind blanks) after an argument-less ordinary command or a sizing command (behind blanks after a command that has its brace arguments it is inside: bodies 19, 20)', '$..$ directly followed by another $', 'bodies outside the templates'],
                assumptions=[])
