"""C13 recorded source positions are true offsets."""
PROPERTY = 'C13'


def plan(tier, seed):
    from vt import cover
    units, info = cover.doc_units(tier, seed, 'doc.py', 'doc_check')
    nmax = 6 if tier == 'quick' else 8
    for n in range(0, nmax + 1):
        units.append(dict(hfile='positions.py', fname='c13_linecol', args=(n,), split=(64 if n >= 7 else 0)))
    pats = ['ab', '[a-z]+', 'x+', 'b']
    for pi in range(len(pats)):
        for di in range(8):
            units.append(dict(hfile='positions.py', fname='c13_regex', args=(di, pats[pi])))
    return dict(units=units,
                bounds=dict(info, node_and_token_offsets='every expression and text token of every skeleton variant (same cover as C01)',
                            line_column='all strings of length 0..%d over {any ASCII letter, LF}: every offset' % nmax,
                            regex='patterns %r on 8 document templates whose text leaves are TEXT holes (two with duplicate leaves)' % pats),
                outside=['regexes outside the modelled family (literal strings, one character class with +)', 'CR / CRLF line structure'],
                assumptions=['true offset of a node = offset obtained by mirroring the serialisers over the parsed tree (round trip is C01)'])
