"""Evaluate seeded changes:  python -m vt.mutants <PROP> <N|all> [CHECK,CHECK...]
Applies /tmp/mut_<PROP>_out/patchN.diff (or /verif/seeded/<id>/patch.diff) in the scratch worktree /tmp/mut_<PROP>
(brought to /repo's HEAD first), confirms tests pass + demo fails, runs the given checks (default: the property's own)
against that tree through VERIF_REPO, and prints a one-line verdict per check."""
import json
import os
import subprocess
import sys
import time

VERIF = os.path.dirname(os.path.dirname(os.path.abspath(__file__)))


def sh(cmd, **kw):
    return subprocess.run(cmd, shell=True, capture_output=True, text=True, **kw)


def evaluate(prop, n, checks, tier='quick'):
    wt = os.environ.get('MUT_PREFIX', '/tmp/mut_') + prop
    out = os.environ.get('MUT_PREFIX', '/tmp/mut_') + prop + '_out'
    patch = '%s/patch%s.diff' % (out, n)
    demo = '%s/demo%s.py' % (out, n)
    head = sh('git -C /repo rev-parse HEAD').stdout.strip()
    sh('git -C %s checkout -q -- . && git -C %s checkout -q --detach %s' % (wt, wt, head))
    res = {'prop': prop, 'n': n}
    d0 = sh('PYTHONPATH=%s /venv/bin/python %s' % (wt, demo), timeout=600)
    res['demo_clean_rc'] = d0.returncode
    a = sh('git -C %s apply %s' % (wt, patch))
    if a.returncode != 0:
        res['apply'] = 'FAILED: ' + a.stderr[:300]
        return res
    t = sh('cd %s && /venv/bin/python -m pytest -q -p no:cacheprovider -x 2>&1 | tail -1' % wt, timeout=900)
    res['tests'] = t.stdout.strip()
    d1 = sh('PYTHONPATH=%s /venv/bin/python %s' % (wt, demo), timeout=600)
    res['demo_mutant_rc'] = d1.returncode
    res['checks'] = {}
    for c in checks:
        t0 = time.time()
        r = sh('cd %s && VERIF_REPO=%s bin/check %s %s' % (VERIF, wt, c, tier), timeout=7200)
        lines = [l for l in r.stdout.splitlines() if l.startswith('VIOLATION') or l.startswith('   signature') or l.startswith('INCONCLUSIVE')]
        res['checks'][c] = {'rc': r.returncode, 'wall': round(time.time() - t0), 'lines': [l[:300] for l in lines[:6]]}
    sh('git -C %s checkout -q -- .' % wt)
    return res


def main(argv):
    prop = argv[0]
    ns = ['1', '2', '3'] if argv[1] == 'all' else [argv[1]]
    checks = argv[2].split(',') if len(argv) > 2 else [prop]
    tier = argv[3] if len(argv) > 3 else 'quick'
    for n in ns:
        if not os.path.exists(os.environ.get('MUT_PREFIX', '/tmp/mut_') + '%s_out/patch%s.diff' % (prop, n)):
            continue
        r = evaluate(prop, n, checks, tier)
        print(json.dumps(r, indent=1), flush=True)
        os.makedirs(os.environ.get('MUT_RES', '/tmp/mutres'), exist_ok=True)
        with open(os.environ.get('MUT_RES', '/tmp/mutres') + '/%s_%s.json' % (prop, n), 'w') as f:
            json.dump(r, f, indent=1)


if __name__ == '__main__':
    main(sys.argv[1:])
