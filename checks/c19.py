"""C19 categorising and tokenising partition the input."""
PROPERTY = 'C19'


def plan(tier, seed):
    nd = 2 if tier == 'quick' else 3
    nt = 4 if tier == 'quick' else 5
    units = []
    for n in range(0, nd + 1):
        units.append(dict(hfile='free.py', fname='c19_categorize', args=(n,), summary_mode=False,
                          split=(64 if n >= 3 else 0)))
    for n in range(0, nt + 1):
        units.append(dict(hfile='free.py', fname='c19_tokenize', args=(n,), summary_mode=True,
                          split=(256 if n >= 5 else 96 if n == 4 else (8 if n == 3 else 0))))
    return dict(units=units,
                bounds={'categorize_direct': 'real categorize on every string of length 0..%d, all code points (length 1 = the all-1,114,112-code-points claim, decided per cell by z3)' % nd,
                        'tokenize_summary': 'tokenize(categorize(s)) for every string of length 0..%d, all code points' % nt},
                outside=['strings longer than the bounds; multi-character command names beyond those reachable in %d characters' % nt],
                assumptions=['the category partition lemma (21 cells, disjoint and complete by z3) is recomputed from the source on every run'])
