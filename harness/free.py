"""Free-string harnesses: every string of a given length over all of Unicode (C06, C07a, C08, C16, C19)."""
from TexSoup import TexSoup
import TexSoup.category as _cat
import TexSoup.tokens as _tok
from TexSoup.utils import CC, TC
#include oracles.py

BLANKS = ' \t\n\r'


def no_nul(s):
    for ch in s:
        SX.assume(SX.Not(SX.ch_among(ch, '\x00\x7f')))


def no_substr(s, w):
    for i in range(len(s) - len(w) + 1):
        SX.assume(SX.Not(SX.s_eq(s[i:i + len(w)], w)))


# ----------------------------------------------------------------------------------------------- C06
def c06_free(n, tol):
    s = SX.fresh(n)
    try:
        soup = TexSoup(s, tolerance=tol)
    except Exception as e:
        SX.check(diag_ok(e), 'C06:internal-exception:' + type(e).__name__,
                 lambda: {'sig': exc_sig(e), 'input': s, 'tolerance': tol, 'error': repr(e)[:300]})
        return ('diag', type(e).__name__)
    SX.check(True, 'C06:returns-tree')
    return ('ok', str(soup))


# ----------------------------------------------------------------------------------------------- C07 (a)
def c07a_free(n):
    s = SX.fresh(n)
    try:
        a = TexSoup(s)
    except Exception as e:
        return ('strict-fails', type(e).__name__)
    try:
        b = TexSoup(s, tolerance=1)
    except Exception as e:
        SX.check(False, 'C07:tolerant-fails-where-strict-succeeds',
                 lambda: {'input': s, 'error': repr(e)[:300]})
        return ('tolerant-fails', type(e).__name__)
    SX.check(str(a) == str(b), 'C07:tolerant-text-differs', lambda: {'input': s, 'strict': str(a), 'tolerant': str(b)})
    SX.check(doc_shape(a) == doc_shape(b), 'C07:tolerant-tree-differs',
             lambda: {'input': s, 'strict': repr(doc_shape(a)), 'tolerant': repr(doc_shape(b))})
    return ('ok', str(a))


# ----------------------------------------------------------------------------------------------- C08 / C16
def conserve_cond(a, b):
    """condition under which b is a with only blank runs deleted that stand directly before { or [ """
    a = SX.raw(a)
    b = SX.raw(b)
    n, m = len(a), len(b)
    memo = {}

    def f(i, j):
        key = (i, j)
        if key in memo:
            return memo[key]
        if i == n:
            r = (j == m)
        else:
            alts = []
            if j < m:
                alts.append(SX.And(SX.ch_eq(a[i], b[j]), f(i + 1, j + 1)))
            conds = []
            for k in range(i + 1, n):
                conds.append(SX.ch_among(a[k - 1], BLANKS))
                alts.append(SX.And(*(conds + [SX.ch_among(a[k], '{['), f(k, j)])))
            r = SX.Or(*alts) if alts else False
        memo[key] = r
        return r
    return f(0, 0)


def c08_free(n, which):
    s = SX.fresh(n)
    no_nul(s)
    no_substr(s, '\\def')       # side condition: mandatory arguments of signature commands are brace-delimited
    try:
        soup = TexSoup(s)
    except Exception as e:
        return ('exc', type(e).__name__)
    out = str(soup)
    SX.check(conserve_cond(s, out), 'C08:conservation', lambda: {'input': s, 'output': out})
    try:
        again = TexSoup(out)
    except Exception as e:
        SX.check(False, 'C16:reparse-fails:' + type(e).__name__,
                 lambda: {'input': s, 'output': out, 'error': repr(e)[:300]})
        return ('reparse-fails', out)
    SX.check(str(again) == out, 'C16:text-drifts', lambda: {'input': s, 'first': out, 'second': str(again)})
    SX.check(doc_shape(again) == doc_shape(soup), 'C16:shape-drifts',
             lambda: {'input': s, 'first': repr(doc_shape(soup)), 'second': repr(doc_shape(again))})
    return ('ok', out)


# ----------------------------------------------------------------------------------------------- C19
def c19_categorize(n):
    """direct mode: the real categorize on n free characters"""
    s = SX.fresh(n)
    try:
        toks = list(_cat.categorize(s))
    except Exception as e:
        SX.check(False, 'C19:one-token-per-char', lambda: {'input': s, 'error': repr(e)[:200]})
        return ('raises', type(e).__name__)
    SX.check(len(toks) == n, 'C19:one-token-per-char')
    for i, t in enumerate(toks):
        SX.check(SX.raw(t.text) == s[i] and len(SX.raw(t.text)) == 1 and SX.same_char(SX.raw(t.text), s[i]),
                 'C19:char-kept')
        SX.check(t.position == i, 'C19:char-index')
        SX.check(isinstance(t.category, CC), 'C19:one-category')
    return ('ok', [(SX.raw(t.text), t.position, int(t.category)) for t in toks])


C19_FRAMES = [('\\left', ''), ('\\right', 'x'), ('\\big', ''), ('\\Big', '\\}'), ('\\bigg', ' '), ('\\Bigg', ''), ('$a\\left', 'b\\right)$'),
              ('x\\\\\\big', ''), ('\\begin{e}\\Big', '\\end{e}'), ('\\left\\l', 'x'), ('\\bigg\\r', 'y'), ('\\item', ''), ('a%b', '\n'),
              ('\\newcommand', '{x}'), ('{\\a', '}'), ('  \n', '{'), ('\\$$', '$')]


def c19_tokenize(n, frame=None):
    s = SX.fresh(n)
    if frame is not None:
        s = C19_FRAMES[frame][0] + s + C19_FRAMES[frame][1]
        n = len(s)
    try:
        toks = list(_tok.tokenize(_cat.categorize(s)))
    except Exception as e:
        SX.check(False, 'C19:tokenizer-raises:' + type(e).__name__, lambda: {'input': s, 'sig': exc_sig(e)})
        return ('raises', type(e).__name__)
    out = ''.join([SX.raw(t.text) for t in toks])
    # tags are unique and ordered, so the alignment is read off the characters themselves
    j = 0
    where = []          # output index -> input index
    for i in range(n):
        if j < len(out) and SX.same_char(out[j], s[i]):
            where.append(i)
            j += 1
        else:
            SX.check(SX.ch_among(s[i], '\x00\x7f'), 'C19:character-lost', lambda: {'input': s, 'tokens': repr(toks)})
    SX.check(j == len(out), 'C19:tokens-not-a-subsequence', lambda: {'input': s, 'tokens': repr(toks)})
    o = 0
    for t in toks:
        txt = SX.raw(t.text)
        SX.check(len(txt) > 0, 'C19:empty-token', lambda: {'input': s, 'tokens': repr(toks)})
        SX.check(isinstance(t.category, TC), 'C19:token-kind', lambda: {'input': s, 'tokens': repr(toks)})
        if len(txt) and o < len(where):
            SX.check(t.position == where[o], 'C19:token-offset',
                     lambda: {'input': s, 'token': txt, 'position': t.position})
        o += len(txt)
    return ('ok', [(SX.raw(t.text), t.position) for t in toks])


# ----------------------------------------------------------------------------------------------- C06 nesting depth
NEST = {
    'group': ('{', '}'), 'bracket-arg': ('\\a[', ']'), 'brace-arg': ('\\a{', '}'), 'env': ('\\begin{e}', '\\end{e}'),
    'math-group': ('$\\a{', '}$'), 'env-cmd': ('\\begin{e}\\a{', '}\\end{e}'), 'item-cmd': ('\\item\\a{', '}'),
    'item-group': ('\\item{', '}'), 'item-env': ('\\item\\begin{e}', '\\end{e}'), 'cmd-env': ('\\a{\\begin{e}', '\\end{e}}'),
    'env-mismatch': ('\\begin{a}', '\\end{b}'), 'open-only': ('\\begin{e}\\a{', ''), 'dollar-group': ('{$', '$}'),
    'env-arg': ('\\begin{e}[', ']\\end{e}'), 'mathenv-cmd': ('\\begin{equation}\\a{', '}\\end{equation}'),
    'item-textbf': ('\\item\\textbf{', '}'), 'env-section': ('\\begin{e}\\section[o]{', '}\\end{e}'), 'item-label-cmd': ('\\item\\label{x}\\a[', ']'),
}


def c06_depth(kind, d, tol):
    op, cl = NEST[kind]
    leaf = SX.fresh(1)
    pre, post = ('\\begin{itemize}', '\\end{itemize}') if kind.startswith('item') else ('', '')
    s = pre + op * d + leaf + cl * d + post
    try:
        soup = TexSoup(s, tolerance=tol)
    except RecursionError:
        return ('recursion',)
    except Exception as e:
        SX.check(diag_ok(e), 'C06:internal-exception:' + type(e).__name__,
                 lambda: {'sig': exc_sig(e), 'input': s[:120], 'tolerance': tol, 'error': repr(e)[:300]})
        return ('diag', type(e).__name__)
    SX.check(True, 'C06:returns-tree')
    return ('ok', len(SX.raw(str(soup))))
