"""C18: TexArgs against a Python list model (pool with symbolic contents, so duplicates are a solver choice)."""
from TexSoup import TexSoup
from TexSoup.data import TexArgs
#include oracles.py

LET = [(97, 122)]


def L(n):
    s = SX.fresh(n)
    for ch in s:
        SX.assume(SX.ch_in(ch, LET))
    return s


def idx(spec, n):
    kind, d = spec
    return d if kind == 'abs' else n + d


def gtext(g):
    return SX.raw(str(g))


def c18_seq(start, owner, ops):
    h = [L(1), L(1), L(1)]
    pool = {'b0': BraceGroup(h[0]), 'b1': BraceGroup(h[1]), 'k2': BracketGroup(h[2]),
            'b0x': BraceGroup(h[0])}
    strs = {'sb': '{' + h[1] + '}', 'sk': '[' + h[0] + ']', 'bad1': '{' + h[0], 'bad2': h[1] + ']', 'bad3': h[2],
            'blank': ' ', 'sbb': '{{' + h[1] + '}}', 'skk': '[[' + h[0] + ']]', 'sbn': '{' + h[2] + '{y}}', 'sknb': '[{' + h[1] + '}]'}
    init = [pool[k] if k in pool else strs[k] for k in start]      # (whitespace strings only enter the proxy list)
    if owner:
        soup = TexSoup('\\a' + ''.join([gtext(g) for g in init if not isinstance(g, str)]) + ' tail')
        node = soup.a
        args = node.args
        m = list(args)
    else:
        node = None
        args = TexArgs(init)
        m = [x for x in init if not isinstance(x, str)]
    step = 0
    for op in ops:
        step += 1
        name = op[0]
        tag = 'C18:' + name
        det = lambda: {'start': start, 'ops': repr(ops), 'step': step, 'holes': ''.join(h), 'args': repr(list(args)),
                       'model': repr(m)}
        exp_exc = None
        ret = exp_ret = None
        m2 = list(m)
        # ---------------- model
        if name in ('append', 'insert', 'extend'):
            key = op[-1]
            items = [key] if name != 'extend' else list(key)
            new = []
            for k in items:
                if k in pool:
                    new.append(pool[k])
                elif k.startswith('bad'):
                    exp_exc = TypeError
                    break
                elif k == 'blank':
                    pass
                else:
                    new.append(('text', strs[k]))
            if exp_exc is None or name == 'extend':
                if name == 'insert':
                    i = idx(op[1], len(m))
                    for x in new:
                        m2.insert(i, x)
                else:
                    m2.extend(new)
        elif name == 'remove':
            key = op[1]
            x = pool[key] if key in pool else strs[key]
            if key.startswith('bad'):
                exp_exc = TypeError
            else:
                xt = gtext(x) if key in pool else x
                pos = None
                for j, y in enumerate(m2):
                    if SX.decide(gtext_any(y) == xt):
                        pos = j
                        break
                if pos is None:
                    exp_exc = ValueError
                else:
                    del m2[pos]
        elif name == 'pop':
            i = idx(op[1], len(m))
            if -len(m) <= i < len(m):
                exp_ret = m2.pop(i)
            else:
                exp_exc = IndexError
        elif name == 'reverse':
            m2.reverse()
        elif name == 'clear':
            m2 = []
        elif name == 'getitem':
            i = idx(op[1], len(m))
            if -len(m) <= i < len(m):
                exp_ret = m2[i]
            else:
                exp_exc = IndexError
        elif name == 'slice':
            exp_ret = m2[op[1]:op[2]]
        elif name == 'slice3':
            exp_ret = m2[op[1]:op[2]:op[3]]
        elif name == 'extendgen':
            m2.extend([pool[k] for k in op[1]])
        elif name == 'setitem':
            i = idx(op[1], len(m))
            if -len(m) <= i < len(m):
                m2[i] = pool[op[2]]
            else:
                exp_exc = IndexError
        elif name == 'delitem':
            i = idx(op[1], len(m))
            if -len(m) <= i < len(m):
                del m2[i]
            else:
                exp_exc = IndexError
        else:
            raise AssertionError(op)
        # ---------------- real
        got_exc = None
        try:
            if name == 'append':
                args.append(pool[op[1]] if op[1] in pool else strs[op[1]])
            elif name == 'extend':
                args.extend([pool[k] if k in pool else strs[k] for k in op[1]])
            elif name == 'insert':
                args.insert(idx(op[1], len(m)), pool[op[2]] if op[2] in pool else strs[op[2]])
            elif name == 'remove':
                args.remove(pool[op[1]] if op[1] in pool else strs[op[1]])
            elif name == 'pop':
                ret = args.pop(idx(op[1], len(m)))
            elif name == 'reverse':
                args.reverse()
            elif name == 'clear':
                args.clear()
            elif name == 'getitem':
                ret = args[idx(op[1], len(m))]
            elif name == 'slice':
                ret = args[op[1]:op[2]]
            elif name == 'slice3':
                ret = args[op[1]:op[2]:op[3]]
            elif name == 'extendgen':
                args.extend((pool[k] for k in op[1]))
            elif name == 'setitem':
                args[idx(op[1], len(m))] = pool[op[2]]
            elif name == 'delitem':
                del args[idx(op[1], len(m))]
        except Exception as e:
            got_exc = e
        if got_exc is not None or exp_exc is not None:
            SX.check(got_exc is not None and exp_exc is not None and isinstance(got_exc, exp_exc),
                     tag + ':exception', lambda: dict(det(), expected=repr(exp_exc), got=repr(got_exc)))
            if got_exc is None or exp_exc is None:
                return ('exc-mismatch', name)
            if name != 'extend':
                m2 = m             # a rejected operation leaves the list unchanged
        if name == 'pop' or name == 'getitem':
            if exp_exc is None:
                SX.check(ret is exp_ret, tag + ':returns-that-element', det)
        if name == 'slice' or name == 'slice3':
            SX.check(isinstance(ret, TexArgs) and len(ret) == len(exp_ret) and all([a is b for a, b in zip(ret, exp_ret)]),
                     tag + ':returns-arglist', det)
        m = m2
        # ---------------- observation
        SX.check(len(args) == len(m), tag + ':len', det)
        if len(args) == len(m):
            for k, (a, b) in enumerate(zip(list(args), list(m))):
                if isinstance(b, tuple):
                    good = isinstance(a, (BraceGroup, BracketGroup)) and gtext(a) == b[1]
                    SX.check(good, tag + ':coerced-group', det)
                    SX.check(not any([a is other for j, other in enumerate(list(args)) if j != k]), tag + ':coerced-group-aliased', det)
                    m[k] = a            # from now on the model holds the coerced group object itself
                else:
                    SX.check(a is b, tag + ':element-identity', det)
        exp_text = ''.join([gtext_any(x) for x in m])
        SX.check(gtext(args) == exp_text, tag + ':str', det)
        if node is not None:
            SX.check(gtext(node) == '\\a' + exp_text, tag + ':owner-str', det)
            SX.check(gtext(soup) == '\\a' + exp_text + ' tail', tag + ':document-str', det)
    return ('ok', gtext(args))


def gtext_any(x):
    return x[1] if isinstance(x, tuple) else SX.raw(str(x))
