"""C07 tolerant mode is a conservative extension that only inserts closers."""
PROPERTY = 'C07'


def plan(tier, seed):
    nmax = 4 if tier == 'quick' else 5
    units = []
    for n in range(0, nmax + 1):
        units.append(dict(hfile='free.py', fname='c07a_free', args=(n,), summary_mode=True,
                          split=(256 if n >= 5 else 96 if n == 4 else (8 if n == 3 else 0))))
    return dict(units=units,
                bounds={'free_strings': '(a) strict ok => tolerant identical: every string of length 0..%d over all code points' % nmax},
                outside=['strings longer than %d characters' % nmax],
                assumptions=[])
