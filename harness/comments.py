"""C10: comments are inert."""
from TexSoup import TexSoup
import TexSoup.category as _cat
import TexSoup.tokens as _tok
from TexSoup.utils import TC
#include oracles.py

SPECIALS = '\\{}$%[]\x00\x7f\r'
CTXS = [
    ('', ''),
    ('\\begin{e}', '\\end{e}'),
    ('\\a[', ']{x}'),
    ('\\a{', '}'),
    ('{', '}'),
    ('\\begin{itemize}\\item ', '\\item b\\end{itemize}'),
    ('$x', 'y$'),
    ('$$x', 'y$$'),
    ('\\(x', 'y\\)'),
    ('\\[x', 'y\\]'),
    ('\\begin{equation}x', 'y\\end{equation}'),
    ('\\begin{itemize}\\item', '\\end{itemize}'),
    ('\\begin{e}[', ']\\end{e}'),
    ('\\c{\\d[', ']}'),
]
NCTX = len(CTXS)
HOSTILE = ['', '\\end{e}', '}', ']', '$', '\\begin{x}', '\\item', '%', '$$', '\\]', '\\)', '{', '[', '\\zz{q}', '\\end{itemize}',
           '\\end{equation}', '\\', '\\\\']


def subst(shape_, old, new):
    if isinstance(shape_, str):
        i = shape_.find(old)
        return shape_ if i < 0 else shape_[:i] + new + shape_[i + len(old):]
    if isinstance(shape_, tuple):
        return tuple([subst(x, old, new) for x in shape_])
    return shape_


LEADS = ['p', '', '\\w', 'p ', '\\w ']
TERMS = ['\n', '\r', '\r\n']


def c10_payload(ci, hi, n, eof, lead=0, term=0):
    pay = SX.fresh(n)
    for ch in pay:
        SX.assume(SX.Not(SX.ch_among(ch, '\n\r')))
    payload = HOSTILE[hi] + pay
    pre, post = CTXS[ci]
    ld = LEADS[lead]
    if eof:
        if ci != 0:
            return ('skip',)
        src = ld + '%' + payload
        benign = ld + '%' + 'x' * len(payload)
    else:
        src = pre + ld + '%' + payload + TERMS[term] + 'r' + post
        benign = pre + ld + '%' + 'x' * len(payload) + TERMS[term] + 'r' + post
    det = lambda: {'source': src, 'benign': benign}
    try:
        ref = TexSoup(benign)
    except Exception as e:
        return ('context-invalid', type(e).__name__)
    want = subst(doc_shape(ref), '%' + 'x' * len(payload), '%' + payload)
    try:
        soup = TexSoup(src)
    except Exception as e:
        SX.check(False, 'C10:payload-breaks-parse:' + type(e).__name__, lambda: dict(det(), error=repr(e)[:200]))
        return ('parse-fails',)
    got = doc_shape(soup)
    SX.check(got == want, 'C10:tree-depends-on-payload', lambda: dict(det(), tree=repr(got), expected=repr(want)))
    SX.check(str(soup) == src, 'C10:roundtrip', lambda: dict(det(), output=str(soup)))
    SX.check(len(soup.find_all('zz')) == 0 and len(soup.find_all('x')) == 0, 'C10:comment-searchable', det)
    nn = len([x for x in soup.descendants if isinstance(x, TexNode)])
    nr = len([x for x in ref.descendants if isinstance(x, TexNode)])
    SX.check(nn == nr, 'C10:node-count', lambda: dict(det(), nodes=nn, expected=nr))
    # the comment leaf itself: one text leaf that is exactly % + payload (it ends where the line ends)
    leaves = []
    collect_text(soup.expr, leaves)
    SX.check(len([t for t in leaves if t == '%' + payload]) >= 1, 'C10:comment-leaf', lambda: dict(det(), leaves=leaves))
    return ('ok', str(soup))


def collect_text(e, out):
    for a in e.args:
        if isinstance(a, TexExpr):
            collect_text(a, out)
    for c in e._contents:
        if isinstance(c, TexText):
            out.append(SX.raw(str(c)))
        elif isinstance(c, TexExpr):
            collect_text(c, out)
        else:
            out.append(SX.raw(str(c)))


def c10_backslashes(ci, k, n):
    pay = SX.fresh(n)
    for ch in pay:
        SX.assume(SX.Not(SX.ch_among(ch, SPECIALS + '\n')))
    pre, post = CTXS[ci]
    src = pre + 'p' + '\\' * k + '%' + pay + '\nr' + post
    at = len(pre) + 1 + k
    det = lambda: {'source': src, 'backslashes': k}
    try:
        toks = list(_tok.tokenize(_cat.categorize(src)))
        soup = TexSoup(src)
    except Exception as e:
        SX.check(False, 'C10:backslash-parse-fails:' + type(e).__name__, lambda: dict(det(), error=repr(e)[:200]))
        return ('parse-fails',)
    comments = [t for t in toks if t.category == TC.Comment]
    if k % 2 == 0:
        SX.check(len(comments) == 1 and comments[0].position == at and SX.raw(comments[0].text) == '%' + pay,
                 'C10:even-backslashes-comment', lambda: dict(det(), comments=repr(comments)))
    else:
        SX.check(len(comments) == 0, 'C10:odd-backslashes-escaped-percent', lambda: dict(det(), comments=repr(comments)))
        esc = [t for t in toks if SX.raw(t.text) == '\\%' and t.position == at - 1]
        SX.check(len(esc) == 1, 'C10:escaped-percent-token', lambda: dict(det(), tokens=repr(toks)))
    SX.check(str(soup) == src, 'C10:roundtrip', lambda: dict(det(), output=str(soup)))
    return ('ok', str(soup), len(comments))
