"""C19 categorising and tokenising partition the input."""
PROPERTY = 'C19'


def plan(tier, seed):
    nd = 2 if tier == 'quick' else 3
    nt = 4 if tier == 'quick' else 5
    units = []
    for n in range(0, nd + 1):
        units.append(dict(hfile='free.py', fname='c19_categorize', args=(n,), summary_mode=False,
                          split=(64 if n >= 3 else 0)))
    for n in range(0, nt + 1):
        units.append(dict(hfile='free.py', fname='c19_tokenize', args=(n,), summary_mode=True, hang_label='C19:tokenizer-does-not-terminate',
                          split=(256 if n >= 5 else 96 if n == 4 else (8 if n == 3 else 0))))
    for fi in range(17):
        for n in ((1, 2) if tier == 'quick' else (1, 2, 3)):
            units.append(dict(hfile='free.py', fname='c19_tokenize', args=(n, fi), summary_mode=True, hang_label='C19:tokenizer-does-not-terminate'))
    return dict(units=units,
                bounds={'categorize_direct': 'real categorize on every string of length 0..%d, all code points (length 1 = the all-1,114,112-code-points claim, decided per cell by z3)' % nd,
                        'tokenize_summary': 'tokenize(categorize(s)) for every string of length 0..%d, all code points' % nt,
                        'tokenize_frames': '17 concrete frames (sizing prefixes, multi-character delimiters, line break + prefix, \\item, comment, \\newcommand, spacer runs, escaped dollar) around 1..%d free characters' % (2 if tier == 'quick' else 3)},
                outside=['strings longer than the bounds; multi-character command names beyond those reachable in %d characters' % nt],
                assumptions=['the category partition lemma (21 cells, disjoint and complete by z3) is recomputed from the source on every run'])


def after(tier, seed, results, log):
    """Bug hunting only: when the real categorize could not be executed symbolically (a change made it use an
    operation the engine does not model), sweep all 1,114,112 code points natively.  A failure found this way is a
    real execution and is reported; finding none leaves the run inconclusive (never a pass)."""
    broken = [r for r in results if 'engine_error' not in r and not r.get('twin') and r['unit'][1] == 'c19_categorize'
              and (not r['complete'] or r['status'].get('unsupported'))]
    if not broken:
        return None
    import os
    import sys
    repo = os.environ.get('VERIF_REPO', '/repo')
    if repo not in sys.path:
        sys.path.insert(0, repo)
    for k in [k for k in sys.modules if k == 'TexSoup' or k.startswith('TexSoup.')]:
        del sys.modules[k]
    from TexSoup.category import categorize
    from TexSoup.utils import CC
    bad = []
    for cp in range(0x110000):
        ch = chr(cp)
        try:
            toks = list(categorize(ch))
            ok = len(toks) == 1 and str(toks[0]) == ch and toks[0].position == 0 and isinstance(toks[0].category, CC)
            why = None if ok else 'tokens %r' % (toks,)
        except Exception as e:
            ok, why = False, repr(e)
        if not ok:
            bad.append((cp, why))
            if len(bad) >= 5:
                break
    log('  native sweep of all code points (symbolic categorize unsupported): %d failures' % len(bad))
    viols = [{'label': 'C19:one-token-per-char', 'vals': [cp], 'detail': {'code_point': 'U+%04X' % cp, 'result': why, 'found_by': 'native sweep (fallback)'},
              'unit': ('free.py', 'c19_categorize', (1,), None)} for cp, why in bad[:1]]
    return {'violations': viols, 'problems': [], 'evidence': {'native_code_point_sweep': {'failures': len(bad)}}}
