"""Lazy categories: a partition {category value -> condition on the character} computed by running the
*real* categorize symbolically on one free character, then used to replace eager classification."""
import z3
from . import cond, models, runtime as R
from .runtime import wrap, SymBool


class SymCode:
    """category of symbolic character k; only ==, !=, truthiness (and, through models, `in` / dict keys)"""
    __slots__ = ('k',)

    def __init__(self, k):
        self.k = k

    def pred(self, v):
        t = SUMMARY.get(int(v))
        if t is None:
            return False
        return cond.rename(t, self.k, {0: self.k})

    def __eq__(self, o):
        if type(o) is SymCode:
            return wrap(cond.Or(*[cond.And(self.pred(v), o.pred(v)) for v in SUMMARY]))
        if isinstance(o, int):
            return wrap(self.pred(o))
        return NotImplemented

    def __ne__(self, o):
        r = self.__eq__(o)
        if r is NotImplemented:
            return r
        return wrap(cond.Not(R.B(r)))

    def __bool__(self):
        return R.ST.decide(cond.Not(self.pred(0)))

    def __hash__(self):
        raise R.Unsupported('hash of a symbolic category')

    def __repr__(self):
        return 'SymCode(c%d)' % self.k


models.SYM_SCALARS.add(SymCode)
SUMMARY = {}        # int category -> condition over variable 0
INFO = {}


def build(explore_fn, categorize_real):
    """returns info dict; raises if the partition is not disjoint and complete"""
    def fn():
        s = R.ST.fresh(1)
        toks = list(categorize_real(s))
        if len(toks) != 1:
            raise R.EngineError('categorize yields %d tokens for one character' % len(toks))
        t = toks[0]
        return (int(t.category), cond.And(*R.ST.pc), t.position, models.s_eq(t.text, s))
    res = explore_fn(fn)
    parts = {}
    cells = []
    for r in res.paths:
        if r.status != 'ok':
            raise R.EngineError('categorize summary path ended with %s' % r.status)
        v, pc, pos, same = r.value
        if pos != 0 or same is not True:
            raise R.EngineError('categorize changed character or position')
        parts.setdefault(v, []).append(pc)
        cells.append(pc)
    SUMMARY.clear()
    for v, pcs in parts.items():
        SUMMARY[v] = cond.Or(*pcs)
    # disjointness and completeness decided by z3
    s = z3.Solver()
    s.add(cond.domain_z3(0))
    s.push()
    s.add(z3.Not(z3.Or(*[cond.to_z3(c) for c in cells])))
    complete = (s.check() == z3.unsat)
    s.pop()
    disjoint = True
    for i in range(len(cells)):
        for j in range(i + 1, len(cells)):
            s.push()
            s.add(cond.to_z3(cells[i]), cond.to_z3(cells[j]))
            if s.check() != z3.unsat:
                disjoint = False
            s.pop()
    INFO.update(cells=len(cells), categories=len(parts), complete=complete, disjoint=disjoint)
    if not (complete and disjoint):
        raise R.EngineError('category partition not disjoint/complete: %r' % INFO)
    return dict(INFO)


def install(mods):
    """replace categorize in the instrumented package by the lazily deciding version"""
    cat, utils = mods['category'], mods['utils']
    real = mods.setdefault('_real_categorize', cat.categorize)
    Token = utils.Token
    conc = {}

    def conc_cat(ch):
        v = conc.get(ch)
        if v is None:
            v = conc[ch] = next(iter(real(ch))).category
        return v

    @utils.to_buffer()
    def categorize(text):
        for position, char in enumerate(text):
            c = R.raw(char)
            o = ord(c[0])
            if R.TAG_LO <= o <= R.TAG_HI:
                yield Token(char, position, SymCode(o - R.TAG_LO))
            else:
                yield Token(char, position, conc_cat(c))
    categorize.__wrapped_real__ = real
    cat.categorize = categorize
    for m in ('tex', 'tokens'):
        if hasattr(mods[m], 'categorize'):
            mods[m].categorize = categorize


def uninstall(mods):
    real = mods.get('_real_categorize')
    if real is not None:
        mods['category'].categorize = real
        for m in ('tex', 'tokens'):
            if hasattr(mods[m], 'categorize'):
                mods[m].categorize = real
