"""Skeleton documents: concrete derivations of the documented-construct grammar whose leaves may be
symbolic holes.  Pure data + pure functions, usable in symbolic and concrete harness mode.

Node = dict with 'k' (kind) and kind specific fields; leaves carry 's' which is either a concrete str or a
hole spec ('H', cls, n, opts) with cls in TEXT / NAME / BLANK.
"""
import random

__symtex_trusted__ = True     # pure data handling: safe to run uninstrumented on symbolic strings

LETTERS = [(65, 90), (97, 122)]
SPECIALS = '\\{}$%[]\x00\x7f\r'
RESERVED = {'begin', 'end', 'item', 'in', 'def', 'textbf', 'section', 'label', 'cap', 'cup', 'notin', 'infty',
            'noindent', 'newcommand', 'renewcommand', 'providecommand', 'left', 'right', 'big', 'Big', 'bigg', 'Bigg',
            'align', 'alignat', 'array', 'displaymath', 'eqnarray', 'equation', 'flalign', 'gather', 'math',
            'multline', 'split', 'lstlisting', 'verbatim', 'verbatimtab', 'Verbatim', 'listing'}
MATHENVS = ['equation', 'align*', 'displaymath', 'math', 'gather', 'split', 'array']
VERBENVS = ['verbatim', 'lstlisting', 'Verbatim', 'listing', 'verbatimtab']
TEXT_REPS = ['a', 'x', ' ', '\n', '\t', '.', ',', '&', '#', '^', '_', '~', '(', ')', '1', 'é', '\u2003', '\x0b', '中', '-']
NAME_POOL = None
NAME_REPS = ['a', 'b', 'q', 'Z', 'ab', 'xy', 'Q']


def H(cls, n, **opts):
    return ('H', cls, n, tuple(sorted(opts.items())))


def is_hole(s):
    return isinstance(s, tuple) and len(s) == 4 and s[0] == 'H'


# ------------------------------------------------------------------------------------ random skeletons

class Gen:
    def __init__(self, seed):
        self.r = random.Random(seed)

    def name(self):
        return H('NAME', self.r.choice([1, 2]))

    def text(self, after_cmd0=False):
        return {'k': 'text', 's': H('TEXT', self.r.choice([1, 1, 2]), nl=after_cmd0)}

    def blocks(self, depth, ctx, n=None, prev=None):
        out = []
        k = self.r.randint(0, 3) if n is None else n
        hist = [prev] if prev is not None else []
        for _ in range(k):
            for _try in range(40):
                b = self.block(depth, ctx, hist[-1] if hist else None)
                if ok_after(hist, b):
                    break
            else:
                continue
            out.append(b)
            hist.append(b)
        return out

    def block(self, depth, ctx, prev):
        r = self.r
        kinds = ['text', 'text', 'esc', 'lbr', 'comment', 'cmd', 'cmd']
        if depth > 0:
            kinds += ['env', 'group', 'list', 'def', 'verb']
            if ctx != 'math':
                kinds += ['math', 'mathenv']
        if ctx == 'math':
            kinds = [k for k in kinds if k not in ('list', 'verb', 'def', 'env')]
        if ctx not in ('top', 'env'):
            kinds = [k for k in kinds if k != 'verb']
        k = r.choice(kinds)
        if k == 'text':
            zero_arg_before = prev is not None and prev['k'] in ('cmd', 'item') and not prev.get('args')
            return {'k': 'text', 's': H('TEXT', r.choice([1, 1, 2]), nl=zero_arg_before)}
        if k == 'esc':
            return {'k': 'esc', 's': '\\' + r.choice(list('{}$&#^_~% ,;!'))}
        if k == 'lbr':
            return {'k': 'lbr', 's': '\\\\'}
        if k == 'comment':
            return {'k': 'comment', 's': '%' + ''.join(r.choice(list('ab {}[]$\\%')) for _ in range(r.randint(0, 3))) + '\n'}
        actx = 'grp' if ctx != 'math' else ctx
        if k == 'cmd':
            nb = r.choice([0, 0, 1, 2])
            nc = r.choice([0, 1, 1, 2])
            args = [{'k': 'bracket', 'body': self.blocks(depth - 1, actx, r.randint(0, 2))} for _ in range(nb)] + \
                   [{'k': 'brace', 'body': self.blocks(depth - 1, actx, r.randint(0, 2))} for _ in range(nc)]
            return {'k': 'cmd', 'name': self.name(), 'args': args}
        if k == 'env':
            nb = r.choice([0, 0, 1])
            nc = r.choice([0, 0, 1])
            args = [{'k': 'bracket', 'body': self.blocks(0, actx, r.randint(0, 1))} for _ in range(nb)] + \
                   [{'k': 'brace', 'body': self.blocks(0, actx, r.randint(0, 1))} for _ in range(nc)]
            return {'k': 'env', 'name': self.name(), 'args': args,
                    'body': self.blocks(depth - 1, 'env' if ctx in ('top', 'env') else ctx,
                                        prev={'k': 'cmd', 'args': [1]})}
        if k == 'group':
            return {'k': 'group', 'body': self.blocks(depth - 1, actx)}
        if k == 'list':
            items = []
            for _ in range(r.randint(1, 3)):
                opt = [{'k': 'bracket', 'body': self.blocks(0, 'grp', 1)}] if r.random() < 0.3 else []
                items.append({'k': 'item', 'args': opt,
                              'body': self.blocks(depth - 1, 'item', prev={'k': 'item', 'args': opt})})
            return {'k': 'list', 'name': r.choice(['itemize', 'enumerate']), 'lead': r.choice(['', '\n', ' ']),
                    'items': items}
        if k == 'math':
            d = r.choice([('$', '$'), ('$$', '$$'), ('\\(', '\\)'), ('\\[', '\\]')])
            body = self.blocks(depth - 1, 'math')
            if d[0] == '$' and not body:
                body = [{'k': 'text', 's': H('TEXT', 1)}]
            return {'k': 'math', 'd': d, 'body': body}
        if k == 'mathenv':
            return {'k': 'mathenv', 'name': r.choice(MATHENVS),
                    'body': self.blocks(depth - 1, 'math', prev={'k': 'cmd', 'args': [1]})}
        if k == 'verb':
            while True:
                body = ''.join(r.choice(list('ab {}[]$\\%\n')) for _ in range(r.randint(0, 5)))
                st = body.lstrip(' \t\n')
                if st[:1] in ('{', '[') or body.endswith('\\') or '%' in body.split('\n')[-1]:
                    continue
                break
            return {'k': 'verb', 'name': r.choice(VERBENVS), 's': body}
        if k == 'def':
            inner = r.choice([('begin', self.name()), ('end', self.name()), ('text', H('TEXT', 1)), ('text', '#1')])
            return {'k': 'def', 'cmd': r.choice(['newcommand', 'renewcommand', 'providecommand']),
                    'name': self.name(), 'nargs': r.choice([None, '1', '2']), 'inner': inner}
        raise AssertionError(k)

    def doc(self, depth=2, n=None):
        return self.blocks(depth, 'top', n if n is not None else self.r.randint(1, 3))


def starts_dollar(n):
    return n['k'] == 'math' and n['d'][0].startswith('$')


def ok_after(hist, n):
    """structural well-formedness between siblings (WF1-WF3); hist = preceding siblings, oldest first
    (for a body it starts with a pseudo command standing for \\begin{..} / \\item)"""
    if not hist:
        return True
    prev = hist[-1]
    if n['k'] == 'group':
        # WF1: no group directly after a command-like block, nor after text that may be blank behind one
        j = len(hist) - 1
        while j >= 0 and hist[j]['k'] == 'text':
            j -= 1
        if j >= 0 and hist[j]['k'] in ('cmd', 'def', 'item'):
            return False
    if prev['k'] == 'math' and prev['d'][0] == '$' and starts_dollar(n):
        return False
    return True


# ------------------------------------------------------------------------------------ instantiation

def walk_leaves(nodes, out):
    """document-order list of (container dict, key) for every leaf string/hole"""
    for n in nodes:
        k = n['k']
        if k in ('text', 'esc', 'lbr', 'comment'):
            out.append((n, 's'))
        elif k == 'cmd':
            out.append((n, 'name'))
            for a in n['args']:
                walk_leaves(a['body'], out)
        elif k in ('bracket', 'brace', 'group'):
            walk_leaves(n['body'], out)
        elif k == 'env':
            out.append((n, 'name'))
            for a in n['args']:
                walk_leaves(a['body'], out)
            walk_leaves(n['body'], out)
        elif k == 'list':
            for it in n['items']:
                for a in it['args']:
                    walk_leaves(a['body'], out)
                walk_leaves(it['body'], out)
        elif k in ('math', 'mathenv'):
            walk_leaves(n['body'], out)
        elif k == 'verb':
            pass
        elif k == 'tdef':
            out.append((n, 'name'))
            walk_leaves(n['body'], out)
        elif k == 'def':
            out.append((n, 'name'))
            if is_hole(n['inner'][1]):
                out.append((n, 'inner1'))
    return out


def copy_tree(x):
    if isinstance(x, dict):
        return {k: copy_tree(v) for k, v in x.items()}
    if isinstance(x, list):
        return [copy_tree(v) for v in x]
    return x


def hole_positions(doc):
    return [(n, key) for n, key in walk_leaves(doc, []) if is_hole(get_leaf(n, key))]


def get_leaf(n, key):
    if key == 'inner1':
        return n['inner'][1]
    return n[key]


def set_leaf(n, key, v):
    if key == 'inner1':
        n['inner'] = (n['inner'][0], v)
    else:
        n[key] = v


def variant(doc, symbolic_idx, seed):
    """copy of doc in which only the holes with index in symbolic_idx stay holes; the others get representatives"""
    r = random.Random(seed)
    d = copy_tree(doc)
    for i, (n, key) in enumerate(hole_positions(d)):
        if i in symbolic_idx:
            continue
        _, cls, ln, opts = get_leaf(n, key)
        opts = dict(opts)
        if cls == 'NAME':
            while True:
                s = ''.join(r.choice('abcxyzABQ') for _ in range(ln))
                if s not in RESERVED:
                    break
        else:
            while True:
                s = ''.join(r.choice(TEXT_REPS) for _ in range(ln))
                if opts.get('nl') and (s[0].isascii() and s[0].isalpha() or s[0] == '*'):
                    continue
                break
        set_leaf(n, key, s)
    return d


def instantiate(doc, SX):
    """replace every hole by fresh characters (document order) under its class assumptions"""
    d = copy_tree(doc)
    for n, key in hole_positions(d):
        _, cls, ln, opts = get_leaf(n, key)
        opts = dict(opts)
        s = SX.fresh(ln)
        if cls == 'TEXT':
            for ch in s:
                SX.assume(SX.Not(SX.ch_among(ch, SPECIALS)))
            if opts.get('nl') and ln:
                SX.assume(SX.Not(SX.ch_in(s[0], LETTERS + [(42, 42)])))
        elif cls == 'NAME':
            for ch in s:
                SX.assume(SX.ch_in(ch, LETTERS))
            for w in RESERVED:
                if len(w) == ln:
                    SX.assume(SX.Not(SX.s_eq(s, w)))
        elif cls == 'BLANK':
            for ch in s:
                SX.assume(SX.ch_among(ch, ' \t\n'))
        else:
            raise AssertionError(cls)
        set_leaf(n, key, s)
    return d


# ------------------------------------------------------------------------------------ serialisation / oracles

def ser(n):
    k = n['k']
    if k in ('text', 'esc', 'lbr', 'comment'):
        return n['s']
    if k == 'cmd':
        return '\\' + n['name'] + ''.join(ser(a) for a in n['args'])
    if k == 'bracket':
        return '[' + ''.join(map(ser, n['body'])) + ']'
    if k in ('brace', 'group'):
        return '{' + ''.join(map(ser, n['body'])) + '}'
    if k == 'env':
        return '\\begin{' + n['name'] + '}' + ''.join(ser(a) for a in n['args']) + ''.join(map(ser, n['body'])) + \
               '\\end{' + n['name'] + '}'
    if k == 'list':
        return '\\begin{' + n['name'] + '}' + n['lead'] + ''.join(map(ser, n['items'])) + '\\end{' + n['name'] + '}'
    if k == 'item':
        return '\\item' + ''.join(ser(a) for a in n['args']) + ''.join(map(ser, n['body']))
    if k == 'math':
        return n['d'][0] + ''.join(map(ser, n['body'])) + n['d'][1]
    if k in ('mathenv',):
        return '\\begin{' + n['name'] + '}' + ''.join(map(ser, n['body'])) + '\\end{' + n['name'] + '}'
    if k == 'verb':
        return '\\begin{' + n['name'] + '}' + n['s'] + '\\end{' + n['name'] + '}'
    if k == 'tdef':
        return '\\def\\' + n['name'] + '{' + ''.join(map(ser, n['body'])) + '}'
    if k == 'def':
        kind, v = n['inner']
        if kind.startswith('nested-'):
            inner = '\\w{\\' + kind[7:] + '{' + v + '}}'
        else:
            inner = v if kind == 'text' else '\\' + kind + '{' + v + '}'
        return '\\' + n['cmd'] + '{\\' + n['name'] + '}' + ('[' + n['nargs'] + ']' if n['nargs'] else '') + '{' + inner + '}'
    raise AssertionError(k)


def merge(xs):
    out = []
    for x in xs:
        if isinstance(x, str):
            if len(x) == 0:
                continue
            if out and isinstance(out[-1], str):
                out[-1] = out[-1] + x
                continue
        out.append(x)
    return tuple(out)


def exp(n):
    """expected shape (same vocabulary as oracles.shape)"""
    k = n['k']
    if k in ('text', 'esc', 'lbr', 'comment'):
        return n['s']
    if k == 'cmd':
        return ('cmd', n['name'], tuple(exp(a) for a in n['args']), ())
    if k in ('bracket', 'brace'):
        return (k, merge([exp(b) for b in n['body']]))
    if k == 'group':
        return ('brace', merge([exp(b) for b in n['body']]))
    if k == 'env':
        return ('env', n['name'], tuple(exp(a) for a in n['args']), merge([exp(b) for b in n['body']]))
    if k == 'list':
        return ('env', n['name'], (), merge([n['lead']] + [exp(i) for i in n['items']]))
    if k == 'item':
        return ('cmd', 'item', tuple(exp(a) for a in n['args']), merge([exp(b) for b in n['body']]))
    if k == 'math':
        return ('math', n['d'][0], merge([exp(b) for b in n['body']]))
    if k == 'mathenv':
        return ('env', n['name'], (), merge([exp(b) for b in n['body']]))
    if k == 'verb':
        return ('env', n['name'], (), merge([n['s']]))
    if k == 'tdef':
        return ('cmd', 'def', (('cmd', n['name'], (), ()), ('brace', merge([exp(b) for b in n['body']]))), ())
    if k == 'def':
        args = [('brace', (('cmd', n['name'], (), ()),))]
        if n['nargs']:
            args.append(('bracket', (n['nargs'],)))
        kind, v = n['inner']
        if kind == 'text':
            inner = merge([v])
        elif kind.startswith('nested-'):
            inner = (('cmd', 'w', (('brace', (('cmd', kind[7:], (('brace', merge([v])),), ()),)),), ()),)
        else:
            inner = (('cmd', kind, (('brace', merge([v])),), ()),)
        args.append(('brace', inner))
        return ('cmd', n['cmd'], tuple(args), ())
    raise AssertionError(k)


def doc_src(doc):
    return ''.join(ser(b) for b in doc)


def doc_shape(doc):
    return merge([exp(b) for b in doc])


def kind_of(b):
    if b['k'] == 'math':
        return 'math' + b['d'][0]
    if b['k'] == 'cmd':
        return 'cmd%d%d' % (min(1, sum(1 for a in b['args'] if a['k'] == 'bracket')),
                            min(1, sum(1 for a in b['args'] if a['k'] == 'brace')))
    return b['k']


def triples(doc, ctx='top', out=None):
    """(container kind, block kind, next sibling kind) coverage items"""
    out = set() if out is None else out

    def seq(blocks, ctx):
        for i, b in enumerate(blocks):
            nxt = kind_of(blocks[i + 1]) if i + 1 < len(blocks) else 'END'
            out.add((ctx, kind_of(b), nxt))
            if b['k'] == 'text':
                prv = kind_of(blocks[i - 1]) if i > 0 else ('BEGIN:' + ctx)
                out.add((ctx, prv, 'text', nxt))
            k = b['k']
            if k == 'cmd':
                for a in b['args']:
                    seq(a['body'], a['k'])
            elif k == 'env':
                for a in b['args']:
                    seq(a['body'], 'env' + a['k'])
                seq(b['body'], 'env')
            elif k == 'group':
                seq(b['body'], 'group')
            elif k == 'list':
                for it in b['items']:
                    for a in it['args']:
                        seq(a['body'], 'itemopt')
                    seq(it['body'], 'item')
            elif k == 'math':
                seq(b['body'], 'math' + b['d'][0])
            elif k == 'mathenv':
                seq(b['body'], 'mathenv')
    seq(doc, ctx)
    return out


def cover(seed, pool=3000, depth=2, limit=None, maxlen=70):
    """deterministic greedy cover of the triples occurring in a random pool of short skeletons"""
    docs = []
    for i in range(pool):
        d = Gen(seed * 1000003 + i).doc(depth)
        if d and len(doc_src_len(d)) <= maxlen:
            docs.append(d)
    sets = [triples(d) for d in docs]
    lens = [len(doc_src_len(d)) for d in docs]
    universe = set().union(*sets)
    chosen = []
    covered = set()
    remaining = list(range(len(docs)))
    while covered != universe and (limit is None or len(chosen) < limit):
        best, best_score = None, 0.0
        keep = []
        for i in remaining:
            gain = len(sets[i] - covered)
            if gain == 0:
                continue
            keep.append(i)
            score = gain / (20.0 + lens[i])
            if score > best_score:
                best, best_score = i, score
        remaining = keep
        if best is None:
            break
        chosen.append(docs[best])
        covered |= sets[best]
    return chosen, len(universe), len(covered)


def doc_src_len(doc):
    """approximate source with holes rendered as x's"""
    d = copy_tree(doc)
    for n, key in hole_positions(d):
        set_leaf(n, key, 'x' * get_leaf(n, key)[2])
    return doc_src(d)
