"""C16 / C08: documents written with arbitrary whitespace between commands and their arguments, and
malformed-but-parseable templates (stray closers, brackets without partner, groups after \\end, ...)."""
from TexSoup import TexSoup
#include oracles.py

BLANKS = ' \t\n\r'
LETTERS = [(65, 90), (97, 122)]
SPECIALS = '\\{}$%[]\x00\x7f'
CTX = [('', ''), ('\\begin{e}', '\\end{e}'), ('\\begin{itemize}\\item ', '\\end{itemize}'), ('\\z{', '}'), ('$', '$'), ('{', '}')]
BODIES = ['x', '', 'a b', '\\w{y}', 'a]b', '[']


def B(n):
    s = SX.fresh(n)
    for ch in s:
        SX.assume(SX.ch_among(ch, BLANKS))
    return s


def T(n):
    s = SX.fresh(n)
    for ch in s:
        SX.assume(SX.Not(SX.ch_among(ch, SPECIALS)))
    return s


def conserve_cond(a, b):
    a = SX.raw(a)
    b = SX.raw(b)
    n, m = len(a), len(b)
    memo = {}

    def f(i, j):
        key = (i, j)
        if key in memo:
            return memo[key]
        if i == n and j == m:
            memo[key] = True
            return True
        alts = []
        if i < n and j < m:
            c = SX.ch_eq(a[i], b[j])
            if c is not False:
                alts.append(SX.And(c, f(i + 1, j + 1)))
        conds = []
        k = i + 1
        while k < n:
            c = SX.ch_among(a[k - 1], BLANKS)
            if c is False:
                break
            conds.append(c)
            o = SX.ch_among(a[k], '{[')
            if o is not False:
                alts.append(SX.And(*(conds + [o, f(k, j)])))
            k += 1
        r = SX.Or(*alts) if alts else False
        memo[key] = r
        return r
    return f(0, 0)


def fixed_point(src, det, names_padded=False):
    try:
        soup = TexSoup(src)
    except Exception as e:
        return ('parse-fails', type(e).__name__)
    out = SX.raw(str(soup))
    if not names_padded:
        SX.check(conserve_cond(src, out), 'C08:conservation', lambda: dict(det(), output=out))
    try:
        again = TexSoup(out)
    except Exception as e:
        SX.check(False, 'C16:reparse-fails:' + type(e).__name__, lambda: dict(det(), output=out, error=repr(e)[:200]))
        return ('reparse-fails',)
    SX.check(SX.raw(str(again)) == out, 'C16:text-drifts', lambda: dict(det(), first=out, second=SX.raw(str(again))))
    SX.check(doc_shape(again) == doc_shape(soup), 'C16:shape-drifts',
             lambda: dict(det(), first=repr(doc_shape(soup))[:300], second=repr(doc_shape(again))[:300]))
    return ('ok', out)


def blanks_cmd(ci, kinds, seplens, bodyidx, tail, name):
    """\\name sep0 g0 sep1 g1 ... with every separator a run of blanks (space, tab, LF, CR) of the given length"""
    groups = []
    for i, k in enumerate(kinds):
        b = BODIES[(bodyidx + i) % len(BODIES)]
        if k == 'k' and (']' in b or '[' in b):
            b = 'o{]}'          # a bracket group ends at the first ] outside braces
        groups.append(('[' + b + ']') if k == 'k' else ('{' + b + '}'))
    seps = [B(n) for n in seplens]
    pre, post = CTX[ci]
    src = pre + '\\' + name + ''.join([s + g for s, g in zip(seps, groups)]) + tail + post
    return fixed_point(src, lambda: {'source': src})


def blanks_env(ci, envname, pad, seplens, body):
    """\\begin{ name } sep [opt] sep {arg} body \\end{name}: blanks around the name and before environment arguments"""
    p1, p2 = B(pad[0]), B(pad[1])
    s1, s2 = B(seplens[0]), B(seplens[1])
    pre, post = CTX[ci]
    src = pre + '\\begin{' + p1 + envname + p2 + '}' + s1 + '[o]' + s2 + '{r}' + body + '\\end{' + envname + '}' + post
    return fixed_point(src, lambda: {'source': src}, names_padded=(pad[0] + pad[1] > 0))


TEMPLATES = [
    lambda t, u: '\\begin{e}' + t + '\\end{e}[' + u + ']',
    lambda t, u: '\\begin{e}\\end{e}[]' + t,
    lambda t, u: '\\begin{e}' + t + '\\end{e}{' + u + '}',
    lambda t, u: '\\begin{e}x\\end{e}\n[' + t + ']{' + u + '}',
    lambda t, u: '\\a{x}\n\n[' + t + ']' + u,
    lambda t, u: '\\a{x}\n\n{' + t + '}' + u,
    lambda t, u: '\\a [' + t + ']' + u,
    lambda t, u: '\\a' + t + '[' + u + ']',
    lambda t, u: 'p]' + t + '[q' + u,
    lambda t, u: '{' + t + ']' + u + '}',
    lambda t, u: '$' + t + '[' + u + '$',
    lambda t, u: '\\a{' + t + '}]' + u,
    lambda t, u: '\\item' + t + '\\item[' + u + ']',
    lambda t, u: '\\begin{e}[' + t + ']{' + u + '}\\end{e}',
    lambda t, u: '\\begin{e}' + t + '{' + u + '}\\end{e}',
    lambda t, u: '\\a{x}[' + t + ']{y}[' + u + ']',
    lambda t, u: '\\a[' + t + '][' + t + ']{' + u + '}',
    lambda t, u: '\\a{' + t + '}{' + t + '}{' + u + '}',
    lambda t, u: '\\end{' + t + '}' + u,
    lambda t, u: '\\left' + t + '\\right' + u,
    lambda t, u: '\\begin{itemize}' + t + '\\item' + u + '\\end{itemize}[z]',
    lambda t, u: '\\[' + t + '\\]{' + u + '}[w]',
    lambda t, u: '\\(\\a' + t + '{' + u + '}\\)',
    lambda t, u: '\\newcommand{\\n}[1]{' + t + '}[' + u + ']',
    lambda t, u: '\\\\\\a' + t + '{' + u + '}',
    lambda t, u: '2 \\\\\\hline' + t + '\n' + u + '\\\\\\\\x',
    lambda t, u: '\\a' + t + '\\\\\\b ' + u + '\\\\[1pt]',
    lambda t, u: '\\begin{e}' + t + '\\end[e]' + u,
    lambda t, u: '\\begin{a\\ }' + t + '\\end{a\\ }' + u,
    lambda t, u: '\\begin{a%\n}' + t + '\\end{a%\n}' + u,
    lambda t, u: '\\foo{a}~{' + t + '}' + u + '\\ldots~[1]',
    lambda t, u: '\\cmd %c\n %d\n[' + t + ']' + u,
    lambda t, u: '\\cmd{a} %' + t + '\n%\n {' + u + '}',
    lambda t, u: '\\cmd\n%c\n{' + t + '}' + u,
    # groups behind \end{..} separated so that an argument scan of \end would stop part way (seeded C16-r5-1)
    lambda t, u: '\\begin{e}x\\end{e}[' + t + '] {' + u + '}',
    lambda t, u: '\\begin{e}x\\end{e}{' + t + '}\n\n{' + u + '}[w]',
    lambda t, u: '\\begin{e}x\\end{e}{' + t + '} [' + u + ']\n{v}',
    lambda t, u: '\\begin{itemize}\\item x\\end{itemize}[' + t + ']\n\n[' + u + '] {v}',
]
NTEMPLATES = len(TEMPLATES)


def template(ti, n1, n2):
    t, u = T(n1), T(n2)
    src = TEMPLATES[ti](t, u)
    return fixed_point(src, lambda: {'source': src})
