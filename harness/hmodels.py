"""model unit tests: every modelled string/list/dict operation, run symbolically and natively"""
ALPHA = 'ab \n\r'

def sym(n):
    s = SX.fresh(n)
    for ch in s:
        SX.assume(SX.ch_among(ch, ALPHA))
    return s

def ops(n, m):
    s = sym(n); t = sym(m)
    out = []
    out.append(('eq', bool(s == t)))
    out.append(('ne', bool(s != t)))
    out.append(('in', bool(t in s)))
    out.append(('notin', bool(t not in s)))
    out.append(('starts', bool(s.startswith(t))))
    out.append(('ends', bool(s.endswith(t))))
    out.append(('isspace', bool(s.isspace())))
    out.append(('strip', s.strip()))
    out.append(('lstrip', s.lstrip()))
    out.append(('rstrip', s.rstrip()))
    out.append(('stripc', s.strip('a ')))
    out.append(('find', s.find(t)))
    out.append(('rfind', s.rfind(t)))
    out.append(('count', s.count(t) if m else -1))
    out.append(('split', s.split(t) if m else None))
    out.append(('replace', s.replace(t, 'Z') if m else None))
    out.append(('splitlines', s.splitlines()))
    out.append(('splitlines-keep', (s + t).splitlines(True)))
    out.append(('isalpha', bool(s.isalpha())))
    out.append(('isalnum', bool(t.isalnum())))
    out.append(('eqconst', bool(s == 'ab'[:n])))
    out.append(('inconst', bool(s in ('a', 'ab', ' '))))
    out.append(('inset', bool(s in {'a', 'ab', ' '})))
    out.append(('dictget', {'a': 1, 'ab': 2}.get(s, 0)))
    out.append(('tupin', bool((s, t) in {('a', 'b'): 1, ('a', ''): 2})))
    lst = ['a', s, 'b', t]
    out.append(('lindex', lst.index(t)))
    out.append(('lcount', lst.count('a')))
    out.append(('linlist', bool('b' in [s, t])))
    l2 = list(lst); l2.remove('b'); out.append(('lremove', tuple(l2)))
    out.append(('listeq', bool([s, 'x'] == [t, 'x'])))
    out.append(('tupne', bool((s, 1) != (t, 1))))
    out.append(('fmt', '<%s|%s>' % (s, t)))
    out.append(('join', '-'.join([s, t])))
    out.append(('slice', (s + t)[1:3]))
    return tuple(out)

def tokens(n):
    from TexSoup.utils import Token
    from TexSoup.data import TexText
    s = sym(n); t = sym(n)
    a = Token(s, 3); b = Token(t, 5); x = TexText(a)
    out = []
    out.append(('tok-eq', bool(a == b)))
    out.append(('tok-eq-str', bool(a == t)))
    out.append(('str-eq-tok', bool(t == a)))
    out.append(('tok-ne', bool(a != b)))          # str.__ne__ on payloads
    out.append(('txt-eq', bool(x == t)))
    out.append(('txt-ne', bool(x != t)))
    out.append(('tok-in', bool(a in (t, 'zz'))))
    out.append(('tok-strip', (str(a.strip()), a.strip().position)))
    out.append(('tok-lstrip', (str(a.lstrip()), a.lstrip().position)))
    out.append(('tok-contains', bool('a' in a)))
    out.append(('tok-starts', bool(a.startswith(t))))
    out.append(('tok-isspace', bool(a.isspace())))
    out.append(('tok-bool', bool(a)))
    out.append(('tok-add', (str(a + b), (a + b).position)))
    out.append(('tok-idx', (str(a[-1]), a[-1].position) if n else None))
    return tuple(out)
