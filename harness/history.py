"""C15: any history of edits keeps the tree equal to a reference document model."""
from TexSoup import TexSoup
from TexSoup.data import TexArgs
#include oracles.py

SPECIALS = '\\{}$%[]\x00\x7f\r'


def L(n):
    s = SX.fresh(n)
    for ch in s:
        SX.assume(SX.ch_in(ch, [(97, 122)]))
    return s


def T(n):
    s = SX.fresh(n)
    for ch in s:
        SX.assume(SX.Not(SX.ch_among(ch, SPECIALS)))
    return s


HDOCS = [
    lambda a, b, t: '\\a{' + a + '}' + t + '\\a{' + b + '}',
    lambda a, b, t: '\\begin{e}\\a{' + a + '}' + t + '\\b[' + b + ']{y}\\end{e}',
    lambda a, b, t: '\\begin{itemize}\\item ' + a + '\\item \\a{' + b + '}\\end{itemize}' + t,
    lambda a, b, t: '{\\a{' + a + '}}$' + b + '$' + t,
    lambda a, b, t: '\\c{\\a{' + a + '}' + t + '\\a{' + b + '}}x',
    lambda a, b, t: '\\begin{e}[\\a{' + a + '}]\\a{' + b + '}' + t + '\\end{e}',
    lambda a, b, t: '\\begin{e}' + a + '\\end{e}' + t + '\\a{' + b + '}\\b{y}',
]


# ------------------------------------------------------------------------------------------- reference model
def build(e, parent=None, holder=None):
    """model node mirroring expression e (identity of e is kept for targeting only)"""
    if isinstance(e, TexText) or not isinstance(e, TexExpr):
        return {'t': 'text', 's': SX.raw(str(e)), 'expr': e, 'parent': parent}
    m = {'expr': e, 'parent': parent, 'args': [], 'contents': []}
    if isinstance(e, TexNamedEnv):
        m['t'] = 'env'
        m['name'] = SX.raw(e.name)
    elif isinstance(e, BraceGroup) or isinstance(e, BracketGroup):
        m['t'] = 'group'
        m['kind'] = '{}' if isinstance(e, BraceGroup) else '[]'
        m['name'] = SX.raw(e.name)
    elif isinstance(e, TexEnv):
        m['t'] = 'root' if e.name == '[tex]' else 'math'
        m['begin'], m['end'] = e.begin, e.end
        m['name'] = SX.raw(e.name)
    else:
        m['t'] = 'cmd'
        m['name'] = SX.raw(e.name)
    for a in e.args:
        g = build(a, m)
        g['isarg'] = True
        m['args'].append(g)
    for c in e._contents:
        m['contents'].append(build(c, m))
    return m


def ser(m):
    t = m['t']
    if t == 'text':
        return m['s']
    inner = ''.join([ser(c) for c in m['contents']])
    args = ''.join([ser(a) for a in m['args']])
    if t == 'cmd':
        return '\\' + m['name'] + args + inner
    if t == 'env':
        return '\\begin{' + m['name'] + '}' + args + inner + '\\end{' + m['name'] + '}'
    if t == 'group':
        return m['kind'][0] + inner + m['kind'][1]
    if t == 'math':
        return m['begin'] + inner + m['end']
    return inner


def m_nodes(m, out):
    """non-text model nodes in the order of the tree's own content enumeration (argument contents, then body)"""
    for a in m['args']:
        for c in a['contents']:
            if c['t'] != 'text':
                out.append(c)
                m_nodes(c, out)
    for c in m['contents']:
        if c['t'] != 'text':
            out.append(c)
            m_nodes(c, out)
    return out


def m_holder(root, target):
    """(list holding target, index) by identity"""
    def visit(m):
        for lst in [a['contents'] for a in m['args']] + [m['contents']]:
            for i, c in enumerate(lst):
                if c is target:
                    return lst, i
                if c['t'] != 'text':
                    r = visit(c)
                    if r is not None:
                        return r
        return None
    return visit(root)


def m_texts(m, out):
    for a in m['args']:
        for c in a['contents']:
            if c['t'] == 'text':
                out.append(c['s'])
            else:
                m_texts(c, out)
    for c in m['contents']:
        if c['t'] == 'text':
            out.append(c['s'])
        else:
            m_texts(c, out)
    return out


def supports_contents(m):
    return m['t'] in ('env', 'group', 'math', 'root') or (m['t'] == 'cmd' and m['name'] == 'item')


# ------------------------------------------------------------------------------------------- new material
def material(kind, root):
    """(objects for the API, model nodes)"""
    if kind == 's':
        z = T(1)
        return [z], [{'t': 'text', 's': z, 'expr': None, 'parent': None}]
    if kind == 'n':
        node = TexSoup('\\n{\\m{1}}').n.copy()
        return [node], [build(node.expr)]
    if kind == 'g':
        node = TexSoup('{\\k \\n{\\m{1}}}').n.copy()      # parsed elsewhere, where it sat inside a group
        return [node], [build(node.expr)]
    if kind == 'i':
        node = TexSoup('\\begin{itemize}\\item \\n{\\m{1}} z\\end{itemize}').n.copy()      # ... inside an item
        return [node], [build(node.expr)]
    if kind == 'a':
        x = L(1)
        node = TexSoup('\\a{' + x + '}').a.copy()       # may become the textual twin of an existing node
        return [node], [build(node.expr)]
    if kind == 'sn':
        z = T(1)
        node = TexSoup('\\n{\\m{1}}').n.copy()
        return [z, node], [{'t': 'text', 's': z, 'expr': None, 'parent': None}, build(node.expr)]
    raise AssertionError(kind)


def real_node(soup, m):
    for n in soup.descendants:
        if isinstance(n, TexNode) and n.expr is m['expr']:
            return n
    return None


# ------------------------------------------------------------------------------------------- one step
def apply(soup, root, op):
    """returns 'skip' when the op instance does not exist in the current document, else None"""
    name = op[0]
    nodes = m_nodes(root, [])
    if name in ('delete-new', 'replace-new', 'remove-new'):
        # target the node that the previous step added (wherever it sits now)
        la = root.get('last_added') or []
        if not la or not any([x is la[0] for x in nodes]):
            return 'skip'
        k = [j for j, x in enumerate(nodes) if x is la[0]][0]
        op = (name[:-4], k) + tuple(op[1:])
        name = op[0]
    if name in ('delete', 'replace', 'remove', 'rename', 'string', 'args', 'share'):
        k = op[1]
        if k >= len(nodes):
            return 'skip'
        m = nodes[k]
        node = real_node(soup, m)
        if node is None:
            SX.check(False, 'C15:node-unreachable', lambda: {'node': ser(m), 'document': ser(root)})
            return 'skip'
        lst, i = m_holder(root, m)
        pm = m.get('parent')
        if name in ('delete', 'replace', 'remove') and pm is not None and pm['t'] == 'cmd' and pm['name'] != 'item' \
                and any([c is m for c in pm['contents']]):
            return 'skip'       # body of a renamed \\item: the command no longer accepts content edits (name class changed)
        if name == 'delete':
            node.delete()
            del lst[i]
        elif name == 'remove':
            if m.get('parent') is None or m['parent'].get('isarg') or not supports_contents(m['parent']) \
                    or not any([c is m for c in m['parent']['contents']]):
                return 'skip'      # parent.remove(child) is claimed for children of bodies, items and groups
            node.parent.remove(node)
            del lst[i]
        elif name == 'replace':
            objs, ms = material(op[2], root)
            node.replace_with(*objs)
            lst[i:i + 1] = ms
            for x in ms:
                x['parent'] = m['parent']
            root['last_added'] = [x for x in ms if x['t'] != 'text'][:1]
        elif name == 'rename':
            if m['t'] not in ('cmd', 'env'):
                return 'skip'
            new = L(1) if op[2] == 'sym' else op[2]
            node.name = new
            m['name'] = new
        elif name == 'string':
            empty = len(op) > 2 and op[2] == 'empty'
            z = '' if empty else T(1)
            if m['t'] == 'cmd' and len(m['args']) == 1:
                node.string = z
                m['args'][0]['contents'] = [{'t': 'text', 's': z, 'expr': None, 'parent': m}]
            elif m['t'] == 'env' and not m['args'] and len(m['contents']) == 1 and m['contents'][0]['t'] == 'text' \
                    and not (len(m['contents'][0]['s']) > 0 and SX.decide(SX.And(*[SX.ch_ws(ch) for ch in m['contents'][0]['s']]))):
                node.string = z
                m['contents'] = [{'t': 'text', 's': z, 'expr': None, 'parent': m}]
                if empty or not SX.decide(SX.And(*[SX.ch_ws(ch) for ch in z])):
                    got = node.string        # (a whitespace-only string is hidden by the contents view: no read-back)
                    SX.check(SX.raw(str(got)) == z, 'C15:string:readback', lambda: {'document': ser(root)})
            else:
                return 'skip'
        elif name == 'share':
            # the same unparsed string appended to two commands, then one of the two new groups edited in place
            others = [x for x in nodes if x is not m and x['t'] == 'cmd']
            if m['t'] != 'cmd' or not others:
                return 'skip'
            o = others[0]
            onode = real_node(soup, o)
            if onode is None:
                return 'skip'
            for mm, nn in ((m, node), (o, onode)):
                nn.args.append('{n}')
                mm['args'].append({'t': 'group', 'kind': '{}', 'name': 'BraceGroup', 'args': [], 'isarg': True, 'parent': mm, 'expr': None,
                                   'contents': [{'t': 'text', 's': 'n', 'expr': None, 'parent': None}]})
            z = T(1)
            node.args[len(node.args) - 1].string = z
            m['args'][-1]['contents'] = [{'t': 'text', 's': z, 'expr': None, 'parent': None}]
        elif name == 'args':
            if m['t'] not in ('cmd', 'env'):
                return 'skip'
            how = op[2]
            if how == 'reverse':
                node.args.reverse()
                m['args'].reverse()
            elif how == 'pop0':
                if not m['args']:
                    return 'skip'
                node.args.pop(0)
                m['args'].pop(0)
            elif how == 'append':
                node.args.append('{n}')
                m['args'].append({'t': 'group', 'kind': '{}', 'name': 'BraceGroup', 'args': [], 'isarg': True, 'parent': m, 'expr': None,
                                  'contents': [{'t': 'text', 's': 'n', 'expr': None, 'parent': None}]})
            elif how == 'append2':
                node.args.append('{{n}}')
                m['args'].append({'t': 'group', 'kind': '{}', 'name': 'BraceGroup', 'args': [], 'isarg': True, 'parent': m, 'expr': None,
                                  'contents': [{'t': 'text', 's': '{n}', 'expr': None, 'parent': None}]})
            elif how == 'insert0':
                node.args.insert(0, '[m]')
                m['args'].insert(0, {'t': 'group', 'kind': '[]', 'name': 'BracketGroup', 'args': [], 'isarg': True, 'parent': m, 'expr': None,
                                     'contents': [{'t': 'text', 's': 'm', 'expr': None, 'parent': None}]})
            elif how == 'slice':
                node.args = node.args[:1]
                m['args'] = m['args'][:1]
            else:
                raise AssertionError(op)
        return None
    if name == 'move':
        # take node k out of the document and append the very same node to container c
        k, c = op[1], op[2]
        conts = [root] + [x for x in nodes if supports_contents(x)]
        if k >= len(nodes) or c >= len(conts):
            return 'skip'
        m, dest = nodes[k], conts[c]
        if dest is m or any([x is dest for x in m_nodes(m, [])]):
            return 'skip'           # not into itself
        pm = m.get('parent')
        if pm is not None and pm['t'] == 'cmd' and pm['name'] != 'item' and any([x is m for x in pm['contents']]):
            return 'skip'
        node = real_node(soup, m)
        dnode = soup if dest is root else real_node(soup, dest)
        if node is None or dnode is None:
            return 'skip'
        lst, i = m_holder(root, m)
        node.delete()
        del lst[i]
        dnode.append(node)
        dest['contents'].append(m)
        m['parent'] = dest
        root['last_added'] = [m]
        return None
    if name in ('insert', 'append'):
        conts = [root] + [x for x in nodes if supports_contents(x)]
        c = op[1]
        if c >= len(conts):
            return 'skip'
        m = conts[c]
        node = soup if m is root else real_node(soup, m)
        if node is None:
            SX.check(False, 'C15:node-unreachable', lambda: {'node': ser(m), 'document': ser(root)})
            return 'skip'
        if name == 'insert':
            i = op[2]
            if i > len(m['contents']):
                return 'skip'
            objs, ms = material(op[3], root)
            node.insert(i, *objs)
            m['contents'][i:i] = ms
        else:
            objs, ms = material(op[2], root)
            node.append(*objs)
            m['contents'].extend(ms)
        for x in ms:
            x['parent'] = m
        root['last_added'] = [x for x in ms if x['t'] != 'text'][:1]
        return None
    raise AssertionError(op)


def consistent(soup, root, tag, det):
    text = SX.raw(str(soup))
    SX.check(text == ser(root), tag + ':text-differs-from-model', lambda: dict(det(), tree=text, model=ser(root)))
    nodes = m_nodes(root, [])
    try:
        desc = [n for n in soup.descendants if isinstance(n, TexNode)]
    except Exception as e:
        SX.check(False, tag + ':descendants-raises:' + type(e).__name__, det)
        return
    # every model node (inserted material included) is a descendant exactly once, with its own text
    SX.check(len(desc) == len(nodes), tag + ':descendants-count', lambda: dict(det(), found=len(desc), expected=len(nodes)))
    for m in nodes:
        hits = [n for n in desc if SX.raw(str(n)) == ser(m)] if m['expr'] is None else [n for n in desc if n.expr is m['expr']]
        SX.check(len(hits) >= 1, tag + ':node-lost', lambda: dict(det(), node=ser(m)))
        if m['expr'] is not None:
            SX.check(len(hits) <= 1, tag + ':node-duplicated', lambda: dict(det(), node=ser(m)))
            for n in hits:
                SX.check(SX.raw(str(n)) == ser(m), tag + ':untargeted-node-altered', lambda: dict(det(), node=ser(m), now=SX.raw(str(n))))
    # parent links: every descendant's parent chain ends at the root
    for n in desc:
        p = n
        steps = 0
        while p.parent is not None and steps < 30:
            p = p.parent
            steps += 1
        SX.check(p is soup, tag + ':parent-chain-broken', lambda: dict(det(), node=SX.raw(str(n))))
    # search agrees with the model for every name in the model (and an absent one)
    names = []
    for m in nodes:
        if m['t'] in ('cmd', 'env') and not any([SX.same_char('x', 'x') and (x is m['name']) for x in names]):
            names.append(m['name'])
    for nm in names[:6] + ['zzq']:
        exp = 0
        for m in nodes:
            if m['t'] in ('cmd', 'env') and SX.decide(SX.s_eq(m['name'], nm)):
                exp += 1
        try:
            got = soup.count(nm)
        except Exception as e:
            SX.check(False, tag + ':search-raises:' + type(e).__name__, det)
            return
        SX.check(got == exp, tag + ':search-count', lambda: dict(det(), name=nm, found=got, expected=exp))
    # text view
    want = [s for s in m_texts(root, []) if not (len(s) > 0 and SX.decide(SX.And(*[SX.ch_ws(ch) for ch in s])))]
    try:
        tv = [SX.raw(str(x)) for x in soup.text]
    except Exception as e:
        SX.check(False, tag + ':text-view-raises:' + type(e).__name__, det)
        return
    SX.check(''.join(tv) == ''.join(want), tag + ':text-view', lambda: dict(det(), got=tv, expected=want))


def c15_history(di, ops):
    a, b, t = L(1), L(1), T(1)
    src = HDOCS[di](a, b, t)
    soup = TexSoup(src)
    SX.assume(str(soup) == src)
    root = build(soup.expr)
    step = 0
    for op in ops:
        step += 1
        det = lambda: {'source': src, 'history': repr(ops), 'step': step}
        before = ser(root)
        try:
            r = apply(soup, root, op)
        except Exception as e:
            SX.check(False, 'C15:%s-raises:%s' % (op[0], type(e).__name__), lambda: dict(det(), document=before, error=repr(e)[:200]))
            return ('raised', step)
        if r == 'skip':
            return ('skip', step)
        consistent(soup, root, 'C15:%s' % op[0], det)
    return ('ok', ser(root))
