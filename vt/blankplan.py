"""Work units for the whitespace documents / malformed templates shared by C08 and C16."""
import itertools


def units(tier, seed):
    out = []
    q = tier == 'quick'
    shapes = ['b', 'k', 'kb', 'bb', 'bk', 'kbb'] + ([] if q else ['kkb', 'bbb', 'kkbb'])
    lens = [0, 1, 2] if q else [0, 1, 2, 3]
    names = ['a', 'textbf', 'section', 'label', 'cap', 'in', 'item']
    bi = seed
    for ci in range(6):
        for kinds in shapes:
            for seplens in itertools.product(lens, repeat=len(kinds)):
                if sum(seplens) > (3 if q else 4) or sum(1 for x in seplens if x) > 2:
                    continue
                for tail in ['', ' t', ' \\w', '\n\n$x$'] if q else ['', ' t', '{u}', ' \\w', '\n\n$x$', ' %c\n']:
                    bi += 1
                    if q and bi % 2:
                        continue
                    name = names[bi % len(names)]
                    if name == 'item' and ci != 2:
                        name = 'a'
                    if name in ('textbf', 'label', 'section'):
                        # side condition of C08/C16: the mandatory argument is brace-delimited (and attaches:
                        # at most one blank character before it)
                        ok = (kinds.startswith('b') or (name == 'section' and kinds.startswith('kb'))) and max(seplens) <= 1
                        if not ok:
                            name = 'a'
                    out.append(dict(hfile='blanks.py', fname='blanks_cmd', args=(ci, kinds, seplens, bi, tail, name), max_paths=100000))
    envs = ['e', 'verbatim', 'equation', 'lstlisting', 'align*', 'itemize']
    for ci in (0, 1):
        for en in envs:
            for pad in [(0, 0), (1, 0), (0, 1), (1, 1)]:
                for seplens in [(0, 0), (1, 0), (0, 1), (2, 0), (1, 1)]:
                    for body in {'itemize': ['\\item x'], 'verbatim': ['\\c {a}$', '\\c {a}'], 'lstlisting': [' {b\n', 'x\\c  [a]{b}'],
                                 'equation': ['x\\c {a}', '\\item x'], 'align*': ['x\\c {a}', '\\item x']}.get(en, ['x\\c {a}']):
                        if q and (pad != (0, 0) and seplens not in [(0, 0), (1, 1)]):
                            continue
                        out.append(dict(hfile='blanks.py', fname='blanks_env', args=(ci, en, pad, seplens, body), max_paths=100000))
                    continue
                    if q and (pad != (0, 0) and seplens not in [(0, 0), (1, 1)]):
                        continue
                    out.append(dict(hfile='blanks.py', fname='blanks_env', args=(ci, en, pad, seplens, body), max_paths=100000))
    for ti in range(38):
        for n1, n2 in ([(1, 1), (2, 0)] if q else [(1, 1), (2, 0), (0, 2), (2, 1), (1, 2)]):
            out.append(dict(hfile='blanks.py', fname='template', args=(ti, n1, n2)))
    return out


BOUNDS = ('commands with 1..3 (quick) / 1..4 bracket+brace groups in every order of kinds, every separator a run of 0..2 (0..3) '
          'blanks over {space, tab, LF, CR} (a blank line included), 6 contexts, plain and fixed-signature names; '
          'environments with blank-padded names and blanks before their arguments (plain, verbatim-like, math, list names); '
          '38 malformed-but-parseable templates (brackets without partner, groups/brackets after \\end{..}, stray closers, '
          'blank lines before groups, twin arguments) with symbolic text holes')
