"""Load TexSoup's source through an AST transformer so that decisions on characters are interceptable."""
import ast
import importlib.util
import os
import sys
import types

from . import models

_OPS = {ast.Eq: '==', ast.NotEq: '!=', ast.Lt: '<', ast.Gt: '>', ast.LtE: '<=', ast.GtE: '>=',
        ast.Is: 'is', ast.IsNot: 'is not', ast.In: 'in', ast.NotIn: 'not in'}
_NO_WRAP = {'super', 'locals', 'globals', 'vars', 'eval', 'exec'}


class Transformer(ast.NodeTransformer):
    def __init__(self, pkg, alias):
        self.pkg = pkg
        self.alias = alias

    def _attr(self, n):
        return ast.Attribute(value=ast.Name(id='_sx', ctx=ast.Load()), attr=n, ctx=ast.Load())

    def visit_Compare(self, node):
        self.generic_visit(node)
        if all(isinstance(o, (ast.Is, ast.IsNot)) for o in node.ops):
            return node
        if len(node.ops) == 1:
            new = ast.Call(func=self._attr('cmp'),
                           args=[ast.Constant(_OPS[type(node.ops[0])]), node.left, node.comparators[0]],
                           keywords=[])
        else:
            thunks = [ast.Lambda(args=ast.arguments(posonlyargs=[], args=[], kwonlyargs=[], kw_defaults=[],
                                                    defaults=[]), body=c) for c in node.comparators]
            new = ast.Call(func=self._attr('cmp_chain'),
                           args=[ast.Tuple(elts=[ast.Constant(_OPS[type(o)]) for o in node.ops], ctx=ast.Load()),
                                 ast.Tuple(elts=[node.left] + thunks, ctx=ast.Load())],
                           keywords=[])
        return ast.copy_location(new, node)

    def visit_Call(self, node):
        self.generic_visit(node)
        if isinstance(node.func, ast.Name) and node.func.id in _NO_WRAP:
            return node
        new = ast.Call(func=self._attr('call'), args=[node.func] + node.args, keywords=node.keywords)
        return ast.copy_location(new, node)

    def visit_Subscript(self, node):
        self.generic_visit(node)
        if isinstance(node.ctx, ast.Load) and not isinstance(node.slice, ast.Slice):
            new = ast.Call(func=self._attr('getitem'), args=[node.value, node.slice], keywords=[])
            return ast.copy_location(new, node)
        return node

    def _rename(self, name):
        if name == self.pkg or name.startswith(self.pkg + '.'):
            return self.alias + name[len(self.pkg):]
        return name

    def visit_ImportFrom(self, node):
        if node.module and node.level == 0:
            node.module = self._rename(node.module)
        return node

    def visit_Import(self, node):
        for a in node.names:
            if a.name == self.pkg or a.name.startswith(self.pkg + '.'):
                if a.asname is None and self.alias != self.pkg:
                    raise NotImplementedError('plain "import %s" cannot be aliased' % a.name)
                a.name = self._rename(a.name)
        return node


def transform(src, filename, pkg, alias):
    tree = ast.parse(src, filename)
    tree = Transformer(pkg, alias).visit(tree)
    ast.fix_missing_locations(tree)
    return compile(tree, filename, 'exec')


class _Loader:
    def __init__(self, fn, pkg, alias, is_pkg):
        self.fn, self.pkg, self.alias, self.is_pkg = fn, pkg, alias, is_pkg

    def create_module(self, spec):
        return None

    def exec_module(self, module):
        with open(self.fn, encoding='utf-8') as f:
            src = f.read()
        module.__dict__['_sx'] = models
        module.__file__ = self.fn
        if self.is_pkg:
            module.__path__ = [os.path.dirname(self.fn)]
        exec(transform(src, self.fn, self.pkg, self.alias), module.__dict__)


class Finder:
    def __init__(self, root, pkg, alias):
        self.root, self.pkg, self.alias = root, pkg, alias

    def find_spec(self, name, path=None, target=None):
        if name != self.alias and not name.startswith(self.alias + '.'):
            return None
        rel = name[len(self.alias):].lstrip('.')
        if rel == '':
            fn = os.path.join(self.root, '__init__.py')
            return importlib.util.spec_from_loader(name, _Loader(fn, self.pkg, self.alias, True), origin=fn,
                                                   is_package=True)
        fn = os.path.join(self.root, *rel.split('.')) + '.py'
        if os.path.exists(fn):
            return importlib.util.spec_from_loader(name, _Loader(fn, self.pkg, self.alias, False), origin=fn)
        return None


def install(root='/repo/TexSoup', pkg='TexSoup', alias='TexSoup_sx'):
    for k in [k for k in sys.modules if k == alias or k.startswith(alias + '.')]:
        del sys.modules[k]
    sys.meta_path.insert(0, Finder(root, pkg, alias))


def read_with_includes(path, seen=None):
    """harness source with lines `#include <file>` replaced by that file's source (same directory)"""
    seen = seen if seen is not None else set()
    out = []
    with open(path, encoding='utf-8') as f:
        for line in f:
            if line.startswith('#include '):
                inc = os.path.join(os.path.dirname(path), line.split()[1])
                if inc not in seen:
                    seen.add(inc)
                    out.append(read_with_includes(inc, seen))
                    out.append('\n')
            else:
                out.append(line)
    return ''.join(out)


def load_harness(path, name, symbolic=True, pkg='TexSoup', alias='TexSoup_sx', sx=None):
    """load a harness module, either through the transformer (symbolic) or plainly (concrete)"""
    src = read_with_includes(path)
    mod = types.ModuleType(name)
    mod.__file__ = path
    if symbolic:
        mod.__dict__['_sx'] = models
        mod.__dict__['SX'] = sx
        code = transform(src, path, pkg, alias)
    else:
        mod.__dict__['SX'] = sx
        code = compile(src, path, 'exec')
    sys.modules[name] = mod
    exec(code, mod.__dict__)
    return mod
