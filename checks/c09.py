"""C09 arguments attach by the one-line-break rule with exact contents."""
import itertools
PROPERTY = 'C09'


def plan(tier, seed):
    units = []
    bi = seed
    if tier == 'quick':
        shapes = [(0, 1), (1, 0), (1, 1), (0, 2), (2, 1), (1, 2)]
        lens, cap, tails, ctxs, nlens = [0, 1, 2], 3, ['', ' t'], range(7), [1]
        thin = 1
    else:
        shapes = [(0, 1), (1, 0), (1, 1), (0, 2), (2, 1), (1, 2), (2, 2), (3, 1), (0, 3), (1, 3), (0, 4), (3, 2)]
        lens, cap, tails, ctxs, nlens = [0, 1, 2, 3], 4, ['', ' t', '{u}'], range(8), [1, 2]
        thin = 6        # every sixth (shape, separators, tail) combination, rotating with the seed
    for ci in ctxs:
        for nb, nc in shapes:
            if ci == 6 and nb > 0:
                continue        # bracket groups do not nest: a detached [..] would close the enclosing bracket argument
            for seplens in itertools.product(lens, repeat=nb + nc):
                if sum(seplens) > cap or sum(1 for x in seplens if x) > 2:
                    continue
                for tail in tails:
                    for nl in nlens:
                        if thin > 1 and (bi + seed) % thin:
                            bi += 1
                            continue
                        if nl == 2 and (bi % 3):
                            bi += 1
                            continue
                        bi += 1
                        units.append(dict(hfile='attach.py', fname='c09', args=(ci, nb, nc, seplens, bi, tail, nl),
                                          max_paths=200000))
        for n in (0, 1, 2):
            for which in (0, 1):
                units.append(dict(hfile='attach.py', fname='c09_bare', args=(ci, n, which)))
        # starred names (outside the signature table, also the starred forms of table names) and
        # brackets behind the brace run (after a blank they are ordinary text and need no partner)
        for nb, nc in [(0, 1), (1, 1), (0, 2), (1, 2)]:
            if ci == 6 and nb > 0:
                continue
            for nm in [-1, -2] + [('section*', 'cap*', 'label*', 'in*', 'textbf*', 'def*', 'infty*', 'cup*')[(ci + nb + nc + k) % 8] for k in range(2 if tier == 'quick' else 8)]:
                bi += 1
                units.append(dict(hfile='attach.py', fname='c09', args=(ci, nb, nc, (0,) * (nb + nc), bi, ['', ' t'][bi % 2], nm)))
                units.append(dict(hfile='attach.py', fname='c09', args=(ci, nb, nc, (1,) + (0,) * (nb + nc - 1), bi, '', nm)))
            if ci != 6:
                for tail in [' [b]', ' [0,1)', '\n[x', '\t]y', ' [b]{c}', ' ', '\n', '\t \n']:
                    bi += 1
                    units.append(dict(hfile='attach.py', fname='c09', args=(ci, nb, nc, (0,) * (nb + nc), bi, tail, 1)))
    # a command without brace arguments followed only by blanks up to the true end of input
    for nb, nc in [(0, 0), (1, 0), (2, 0)]:
        for tail in [' ', '\n', '\t \n', ' \t']:
            for nm in (1, -1):
                bi += 1
                units.append(dict(hfile='attach.py', fname='c09', args=(0, nb, nc, (0,) * (nb + nc), bi, tail, nm)))
                if nb:
                    units.append(dict(hfile='attach.py', fname='c09', args=(0, nb, nc, (1,) + (0,) * (nb - 1), bi, tail, nm)))
    for ci in ctxs:
        if ci == 6:
            continue
        for sepn in (1, 2):
            for first in range(3):
                units.append(dict(hfile='attach.py', fname='c09_trailing', args=(ci, sepn, first)))
    return dict(units=units,
                bounds={'groups': 'bracket-then-brace shapes %r' % (shapes,), 'separator_lengths': '%r per position, total <= %d, at most 2 non-empty' % (lens, cap),
                        'separators': 'every character any code point except \\ { } $ %% [ ] NUL DEL (first separator not starting with a letter or *); LF and CR both count as line breaks',
                        'contexts': 'top level, environment body, item, brace argument, $ math, group, bracket argument, align', 'name': 'symbolic letters, length %r, outside the signature table; symbolic letters + *; starred forms of table names' % (nlens,), 'tails': 'after a blank behind the brace run: [b], [0,1), [x, ]y, [b]{c} stay text / groups of the surroundings'},
                outside=['a bracket group directly adjacent to the last brace group (the code attaches it; not in the quantifier)', 'names in the fixed-signature table'],
                assumptions=['attach(sep) := every character in {space, tab, LF, CR} and at most one of LF/CR'])
