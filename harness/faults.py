"""Faulted inputs (C06, C07, C08, C16): truncations, one substituted / inserted free character, deletions,
transpositions of well-formed documents; deleted closers."""
from TexSoup import TexSoup
from symtex import skeleton as K
#include oracles.py

BLANKS = ' \t\n\r'
NAMECH = [(65, 90), (97, 122), (42, 42)]


def conserve_cond(a, b):
    """b is a with only blank runs deleted that stand directly before { or [   (C08)"""
    return align_cond(a, b, False)


def closers_cond(a, b):
    """b is a with only closers inserted, modulo the C08 allowance   (C07c)"""
    return align_cond(a, b, True)


def align_cond(a, b, closers):
    a = SX.raw(a)
    b = SX.raw(b)
    n, m = len(a), len(b)
    memo = {}

    def f(i, j):
        key = (i, j)
        if key in memo:
            return memo[key]
        alts = []
        if i == n and j == m:
            memo[key] = True
            return True
        if i < n and j < m:
            c = SX.ch_eq(a[i], b[j])
            if c is not False:
                alts.append(SX.And(c, f(i + 1, j + 1)))
        # delete a blank run a[i:k] that is directly followed by an opener a[k]
        conds = []
        k = i + 1
        while k < n:
            c = SX.ch_among(a[k - 1], BLANKS)
            if c is False:
                break
            conds.append(c)
            o = SX.ch_among(a[k], '{[')
            if o is not False:
                alts.append(SX.And(*(conds + [o, f(k, j)])))
            k += 1
        if closers and j < m:
            c = SX.ch_among(b[j], '}]')
            if c is not False:
                alts.append(SX.And(c, f(i, j + 1)))
            if j + 6 <= m:
                c = SX.s_eq(b[j:j + 5], '\\end{')
                if c is not False:
                    # \end{X} for an environment name X that the input opens: \begin{X occurs in the input
                    for k in range(j + 5, m):
                        close = SX.ch_eq(b[k], '}')
                        if close is False:
                            continue
                        x = b[j + 5:k]
                        # \\begin, optional blanks, {X  occurs in the input
                        opts = []
                        for p in range(0, n - 6 - len(x)):
                            b0 = SX.s_eq(a[p:p + 6], '\\begin')
                            if b0 is False:
                                continue
                            blanks = []
                            r = p + 6
                            while r < n:
                                ob = SX.ch_eq(a[r], '{')
                                if ob is not False:
                                    # the name as printed may itself have lost blank runs before openers (C08 allowance)
                                    for q in range(r + 1 + len(x), min(n, r + 1 + len(x) + 6) + 1):
                                        o = SX.s_eq(a[r + 1:q], x) if q == r + 1 + len(x) else align_cond(a[r + 1:q], x, False)
                                        if o is not False:
                                            opts.append(SX.And(*([b0] + blanks + [ob, o])))
                                bl = SX.ch_among(a[r], BLANKS)
                                if bl is False:
                                    break
                                blanks = blanks + [bl]
                                r += 1
                        opened = SX.Or(*opts) if opts else False
                        if opened is False:
                            continue
                        alts.append(SX.And(c, close, opened, f(i, k + 1)))
        r = SX.Or(*alts) if alts else False
        memo[key] = r
        return r
    return f(0, 0)


def name_ws_sig(inp, out, closers):
    """classifier for the known finding "whitespace directly inside the braces of an environment name is dropped"
    (TexExpr.__init__ strips the name).  Candidate runs: a blank run directly after the brace that opens a
    \\begin name, or directly before the brace that closes it (or before the end of input if it is never closed).
    The counterexample is that finding iff deleting some of exactly these runs makes the alignment oracle hold.
    Concrete mode only (runs inside detail printers)."""
    import itertools
    import re
    n = len(inp)

    def name_group_end(j):
        """index of the brace that closes the group opened at j (comments and escapes skipped), or n"""
        depth = 0
        i = j
        while i < n:
            ch = inp[i]
            if ch == '\\':
                i += 2
                continue
            if ch == '%':
                while i < n and inp[i] not in '\n\r':
                    i += 1
                continue
            if ch == '{':
                depth += 1
            elif ch == '}':
                depth -= 1
                if depth == 0:
                    return i
            i += 1
        return n

    runs = []
    for m in re.finditer(r'\\begin[ \t\n\r]*\{', inp):
        j = m.end() - 1
        e = name_group_end(j)
        lead = re.match(r'\s+', inp[j + 1:e])
        if lead:
            runs.append((j + 1, j + 1 + lead.end()))
        trail = re.search(r'\s+$', inp[j + 1:e])
        if trail and (not lead or trail.start() > 0):
            runs.append((j + 1 + trail.start(), e))
    runs = sorted(set(runs))
    runs = runs[:6]
    for k in range(1, len(runs) + 1):
        for sub in itertools.combinations(runs, k):
            norm = inp
            for a0, a1 in sorted(sub, reverse=True):
                norm = norm[:a0] + norm[a1:]
            if align_cond(norm, out, closers):
                return 'env-name-whitespace'
    return 'other'


def properties_of(s, tag):
    """all per-input assertions of C06 / C07a / C07c / C08 / C16 on one (possibly symbolic) string"""
    det = lambda: {'input': s, 'fault': tag}
    strict = tol = None
    try:
        strict = TexSoup(s)
        strict_out = SX.raw(str(strict))
    except Exception as e:
        strict = None
        SX.check(diag_ok(e), 'C06:internal-exception:' + type(e).__name__, lambda: dict(det(), sig=exc_sig(e), tolerance=0, error=repr(e)[:200]))
    try:
        tol = TexSoup(s, tolerance=1)
        tol_out = SX.raw(str(tol))
    except Exception as e:
        tol = None
        SX.check(diag_ok(e), 'C06:internal-exception:' + type(e).__name__, lambda: dict(det(), sig=exc_sig(e), tolerance=1, error=repr(e)[:200]))
        if strict is not None:
            SX.check(False, 'C07:tolerant-fails-where-strict-succeeds', lambda: dict(det(), error=repr(e)[:200]))
    SX.check(True, 'C06:terminates')
    if strict is not None and tol is not None:
        SX.check(strict_out == tol_out, 'C07:tolerant-text-differs', lambda: dict(det(), strict=strict_out, tolerant=tol_out))
        SX.check(doc_shape(strict) == doc_shape(tol), 'C07:tolerant-tree-differs', det)
    # side conditions of C08/C16 (also applied to C07c, which is read modulo what C08 permits): no NUL/DEL, and no
    # fixed-signature command whose mandatory argument might not be brace-delimited
    clean = not SX.decide(SX.Or(*[SX.ch_among(ch, '\x00\x7f') for ch in s])) if len(s) else True
    nodef = not any([SX.decide(SX.s_eq(s[i:i + len(w)], w)) for w in ('\\def', '\\textbf', '\\section', '\\label')
                     for i in range(len(s) - len(w) + 1)])
    if tol is not None and clean and nodef:
        SX.check(closers_cond(s, tol_out), 'C07:tolerant-output-not-input-plus-closers',
                 lambda: dict(det(), output=tol_out, sig=name_ws_sig(s, tol_out, True)))
    if strict is not None and clean and nodef:
        SX.check(conserve_cond(s, strict_out), 'C08:conservation', lambda: dict(det(), output=strict_out, sig=name_ws_sig(s, strict_out, False)))
        try:
            again = TexSoup(strict_out)
        except Exception as e:
            SX.check(False, 'C16:reparse-fails:' + type(e).__name__, lambda: dict(det(), output=strict_out, error=repr(e)[:200]))
            return ('reparse-fails',)
        SX.check(SX.raw(str(again)) == strict_out, 'C16:text-drifts', lambda: dict(det(), first=strict_out, second=SX.raw(str(again))))
        SX.check(doc_shape(again) == doc_shape(strict), 'C16:shape-drifts', lambda: dict(det(), first=repr(doc_shape(strict))[:300], second=repr(doc_shape(again))[:300]))
    return ('ok', strict_out if strict is not None else None, tol_out if tol is not None else None)


def fault(base, kind, i):
    if kind == 'trunc':
        s = base[:i]
    elif kind == 'trunc+':
        s = base[:i] + SX.fresh(1)
    elif kind == 'subst':
        s = base[:i] + SX.fresh(1) + base[i + 1:]
    elif kind == 'insert':
        s = base[:i] + SX.fresh(1) + base[i:]
    elif kind == 'delete':
        s = base[:i] + base[i + 1:]
    elif kind == 'swap':
        s = base[:i] + base[i + 1:i + 2] + base[i:i + 1] + base[i + 2:]
    else:
        raise AssertionError(kind)
    return properties_of(s, '%s@%d' % (kind, i))


# ------------------------------------------------------------------------------------------- deleted closers (C07b)
def pieces(n, out):
    """serialisation as (text, closer kind or None) pieces"""
    k = n['k']
    if k in ('text', 'esc', 'lbr', 'comment'):
        out.append((n['s'], None))
    elif k == 'cmd':
        out.append(('\\' + n['name'], None))
        for a in n['args']:
            pieces(a, out)
    elif k == 'bracket':
        out.append(('[', None))
        for b in n['body']:
            pieces(b, out)
        out.append((']', 'bracket'))
    elif k in ('brace', 'group'):
        out.append(('{', None))
        for b in n['body']:
            pieces(b, out)
        out.append(('}', 'brace'))
    elif k == 'env':
        out.append(('\\begin{' + n['name'] + '}', None))
        for a in n['args']:
            pieces(a, out)
        for b in n['body']:
            pieces(b, out)
        out.append(('\\end{' + n['name'] + '}', 'end'))
    elif k == 'tdef':
        out.append(('\\def\\' + n['name'], None))
        out.append(('{', None))
        for b in n['body']:
            pieces(b, out)
        out.append(('}', 'brace'))
    elif k == 'def':
        out.append((K.ser(n), None))
    else:
        raise AssertionError(k)
    return out


def has_kind(nodes, kinds):
    for n in nodes:
        if n['k'] in kinds:
            return True
        for key in ('args', 'body', 'items'):
            if key in n and has_kind(n[key], kinds):
                return True
    return False


def closer_deleted(doc, k):
    if has_kind(doc, ('math', 'mathenv', 'verb', 'list', 'item', 'def', 'comment')):
        return ('skip',)
    d = K.instantiate(doc, SX)
    ps = []
    for b in d:
        pieces(b, ps)
    closers = [i for i, (t, c) in enumerate(ps) if c is not None]
    if k >= len(closers):
        return ('skip',)
    ci = closers[k]
    kind = ps[ci][1]
    if kind == 'bracket':
        # a bracket group closes at the next ] outside braces: the deletion must leave the text unbalanced
        depth = 0
        rest = ''.join([SX.raw(t) for t, c in ps[ci + 1:]])
        i = 0
        while i < len(rest) and depth >= 0:
            ch = rest[i]
            if ch == '\\':
                i += 2              # an escaped character is text, whatever it is
                continue
            if ch == '{':
                depth += 1
            elif ch == '}':
                depth -= 1
            elif ch == ']' and depth <= 0:
                return ('skip',)
            i += 1
    src = ''.join([t for i, (t, c) in enumerate(ps) if i != ci])
    full = ''.join([t for t, c in ps])
    det = lambda: {'document': full, 'input': src, 'deleted': kind}
    try:
        TexSoup(src)
        SX.check(False, 'C07:strict-accepts-document-with-missing-closer', det)
    except Exception as e:
        SX.check(diag_ok(e), 'C07:missing-closer-not-diagnosed:' + type(e).__name__, lambda: dict(det(), error=repr(e)[:200]))
    try:
        tol = TexSoup(src, tolerance=1)
    except Exception as e:
        SX.check(False, 'C07:tolerant-fails-on-missing-closer:' + type(e).__name__, lambda: dict(det(), error=repr(e)[:200]))
        return ('tolerant-fails',)
    out = SX.raw(str(tol))
    SX.check(closers_cond(src, out), 'C07:tolerant-output-not-input-plus-closers', lambda: dict(det(), output=out))
    return ('ok', out)
