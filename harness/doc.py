"""Skeleton documents with symbolic holes: round trip (C01), tree shape (C02), positions (C13a)."""
from TexSoup import TexSoup
from symtex import skeleton as K
#include oracles.py


def spans(expr, base, out):
    """mirror of the serialisers: out = list of (start, end, expr); returns length"""
    if isinstance(expr, TexText) or not isinstance(expr, TexExpr):
        n = len(SX.raw(str(expr)))
        out.append((base, base + n, expr))
        return n
    pos = base
    if isinstance(expr, TexNamedEnv):
        pos += len('\\begin{%s}' % SX.raw(expr.name))
        tail = len('\\end{%s}' % SX.raw(expr.name))
    elif isinstance(expr, TexEnv):
        pos += 0 if expr.name == '[tex]' else len(expr.begin)
        tail = 0 if expr.name == '[tex]' else len(expr.end)
    else:
        pos += 1 + len(SX.raw(expr.name))
        tail = 0
    for a in expr.args:
        pos += spans(a, pos, out)
    for c in expr._contents:
        pos += spans(c, pos, out)
    pos += tail
    out.append((base, pos, expr))
    return pos - base


def doc_check(doc):
    d = K.instantiate(doc, SX)
    src = K.doc_src(d)
    expected = K.doc_shape(d)
    try:
        soup = TexSoup(src)
    except Exception as e:
        SX.check(False, 'C01:parse-fails:' + type(e).__name__, lambda: {'source': src, 'sig': exc_sig(e), 'error': repr(e)[:300]})
        SX.check(False, 'C02:parse-fails:' + type(e).__name__, lambda: {'source': src, 'sig': exc_sig(e), 'error': repr(e)[:300]})
        SX.check(False, 'C13:parse-fails:' + type(e).__name__, lambda: {'source': src, 'sig': exc_sig(e), 'error': repr(e)[:300]})
        return ('parse-fails', type(e).__name__)
    out = str(soup)
    SX.check(out == src, 'C01:roundtrip', lambda: {'source': src, 'output': out})
    A = doc_shape(soup)
    SX.check(A == expected, 'C02:shape', lambda: {'source': src, 'tree': repr(A), 'expected': repr(expected)})
    sp = []
    spans(soup.expr, 0, sp)
    for start, end, e in sp:
        if e is soup.expr:
            continue
        if isinstance(e, TexText) or (isinstance(e, str) and not isinstance(e, TexExpr)):
            t = e._text if isinstance(e, TexText) else e
            p = getattr(t, 'position', None)
            SX.check(p == start, 'C13:text-offset', lambda: {'source': src, 'text': SX.raw(str(t)), 'recorded': p, 'true': start})
            SX.check(src[start:end] == SX.raw(str(t)), 'C01:text-slice', lambda: {'source': src, 'text': SX.raw(str(t)), 'at': start})
        elif isinstance(e, TexExpr):
            SX.check(e.position == start, 'C13:node-offset',
                     lambda: {'source': src, 'node': SX.raw(str(e)), 'recorded': e.position, 'true': start})
            SX.check(src[start:end] == SX.raw(str(e)), 'C01:node-slice', lambda: {'source': src, 'node': SX.raw(str(e)), 'at': start})
        else:
            SX.check(False, 'C02:foreign-object-in-tree', lambda: {'source': src, 'object': repr(e)})
    return ('ok', out, A)


# =============================================================================================== C04
def expr_all(e):
    """own definition of the complete content list: contents of the argument groups, then the body"""
    out = []
    for a in e.args:
        for x in a._contents:
            out.append(x)
    for x in e._contents:
        out.append(x)
    return out


def is_text(x):
    return isinstance(x, TexText) or (isinstance(x, str) and not isinstance(x, TexExpr))


def text_payload(x):
    return x._text if isinstance(x, TexText) else x


def blank(x):
    t = SX.raw(str(x))
    return len(t) > 0 and SX.decide(SX.And(*[SX.ch_ws(ch) for ch in t]))


def same_item(got, exp):
    """got: element of a node-level view; exp: element of the expression tree"""
    if is_text(exp):
        return got is text_payload(exp)
    return isinstance(got, TexNode) and got.expr is exp


def nav_node(node, src, root, depth):
    e = node.expr
    det = lambda: {'source': src, 'node': SX.raw(str(node))[:80]}
    contents = node.contents            # (the code decides blankness first; the oracle's decisions are then forced)
    full = expr_all(e)
    exp_contents = [x for x in full if not (is_text(x) and blank(x))]
    SX.check(len(contents) == len(exp_contents) and all([same_item(g, x) for g, x in zip(contents, exp_contents)]),
             'C04:contents', det)
    # node-level `all` is claimed for the root only (for other nodes it raises on text inside arguments, see DESIGN)
    allv = node.all if node is root else []
    if node is root:
        SX.check(len(allv) == len(full) and all([isinstance(g, TexNode) and g.expr is x for g, x in zip(allv, full)]),
                 'C04:all', det)
    exp_children = [x for x in exp_contents if isinstance(x, (TexEnv, TexCmd))]
    children = node.children
    SX.check(len(children) == len(exp_children) and all([g.expr is x for g, x in zip(children, exp_children)]),
             'C04:children', det)
    it = list(node)
    SX.check(len(it) == len(exp_contents) and all([same_item(g, x) for g, x in zip(it, exp_contents)]), 'C04:iteration', det)
    for i in range(len(exp_contents)):
        SX.check(same_item(node[i], exp_contents[i]), 'C04:indexing', det)
    for sl in (slice(None), slice(1, None), slice(None, None, 2), slice(-1, None)):
        got = node[sl]
        want = exp_contents[sl]
        SX.check(isinstance(got, list) and len(got) == len(want) and all([same_item(g, x) for g, x in zip(got, want)]),
                 'C04:slice-indexing', det)
        for g in got:
            if isinstance(g, TexNode):
                SX.check(g.parent is node, 'C04:parent-of-slice', det)
    for view, name in ((contents, 'contents'), (children, 'children'), (allv, 'all'), (it, 'iteration')):
        for g in view:
            if isinstance(g, TexNode):
                SX.check(g.parent is node, 'C04:parent-of-' + name, det)
    # descendants = transitive closure of contents, every node once
    exp_desc = []

    def close(x_contents):
        for x in x_contents:
            exp_desc.append(x)
        for x in x_contents:
            if isinstance(x, (TexEnv, TexCmd)):
                close([y for y in expr_all(x) if not (is_text(y) and blank(y))])
    close(exp_contents)
    desc = list(node.descendants)
    ok = len(desc) == len(exp_desc)
    if ok:
        used = [False] * len(exp_desc)
        for g in desc:
            hit = False
            for j, x in enumerate(exp_desc):
                if not used[j] and same_item(g, x):
                    used[j] = True
                    hit = True
                    break
            ok = ok and hit
    SX.check(ok, 'C04:descendants', lambda: dict(det(), got=len(desc), expected=len(exp_desc)))
    for g in desc:
        if isinstance(g, TexNode):
            p = g
            steps = 0
            while p.parent is not None and steps < 50:
                p = p.parent
                steps += 1
            SX.check(p is node or p is root or (p.expr is root.expr), 'C04:parent-walk', det)
    # text view: non-blank text leaves in document order
    exp_text = []

    def texts(x_contents):
        for x in x_contents:
            if is_text(x):
                exp_text.append(text_payload(x))
            elif isinstance(x, TexExpr):
                texts([y for y in expr_all(x) if not (is_text(y) and blank(y))])
    texts(exp_contents)
    tv = node.text
    SX.check(len(tv) == len(exp_text) and all([g is x for g, x in zip(tv, exp_text)]), 'C04:text', det)
    if depth < 6:
        for c in contents:
            if isinstance(c, TexNode):
                nav_node(c, src, root, depth + 1)


def doc_nav(doc):
    d = K.instantiate(doc, SX)
    src = K.doc_src(d)
    try:
        soup = TexSoup(src)
    except Exception as e:
        return ('parse-fails', type(e).__name__)
    SX.check(''.join([SX.raw(str(x)) for x in soup.all]) == src, 'C04:root-all-concatenates',
             lambda: {'source': src})
    try:
        nav_node(soup, src, soup, 0)
    except Exception as e:
        SX.check(False, 'C04:view-raises:' + type(e).__name__, lambda: {'source': src, 'sig': exc_sig(e), 'error': repr(e)[:300]})
        return ('raised', type(e).__name__)
    return ('ok', str(soup))


# =============================================================================================== C03
def all_exprs(e, out):
    """every non-text expression below e, own traversal (argument groups are containers, not nodes)"""
    for x in expr_all(e):
        if isinstance(x, TexExpr) and not isinstance(x, TexText):
            out.append(x)
            all_exprs(x, out)
    return out


def matches(x, q):
    """the property's own reading of a query (mirrors decisions the search takes anyway)"""
    if isinstance(q, list):
        return any([SX.decide(SX.s_eq(SX.raw(x.name), n)) for n in q])
    if len(q) > 0 and q[0] == '\\':          # a full-expression query (by-name queries may contain any other text)
        if isinstance(x, TexNamedEnv):
            opening = '\\begin{%s}' % SX.raw(x.name) + SX.raw(str(x.args))
            if SX.decide(SX.Or(SX.s_eq(opening, q), SX.s_eq('\\begin{%s}' % SX.raw(x.name), q),
                               SX.s_eq('\\end{%s}' % SX.raw(x.name), q))):
                return True
        return SX.decide(SX.s_eq(SX.raw(str(x)), q))
    return SX.decide(SX.s_eq(SX.raw(x.name), q))


def search_from(node, q, src, qdesc):
    det = lambda: {'source': src, 'query': repr(q), 'root': SX.raw(str(node))[:60], 'kind': qdesc}
    try:
        got = node.find_all(q)
        first = node.find(q)
        cnt = node.count(q)
    except Exception as e:
        SX.check(False, 'C03:search-raises:' + type(e).__name__, lambda: dict(det(), error=repr(e)[:200], sig=exc_sig(e)))
        return -1
    exp = [x for x in all_exprs(node.expr, []) if matches(x, q)]
    ok = len(got) == len(exp)
    if ok:
        used = [False] * len(exp)
        for g in got:
            hit = False
            for j, x in enumerate(exp):
                if not used[j] and isinstance(g, TexNode) and g.expr is x:
                    used[j] = True
                    hit = True
                    break
            ok = ok and hit
    SX.check(ok, 'C03:find_all', lambda: dict(det(), got=[SX.raw(str(g))[:40] for g in got], expected=[SX.raw(str(x))[:40] for x in exp]))
    SX.check((first is None) if not got else (first is not None and first.expr is got[0].expr), 'C03:find-is-first', det)
    SX.check(cnt == len(got), 'C03:count', det)
    return len(got)


def doc_search(doc, qkind):
    d = K.instantiate(doc, SX)
    src = K.doc_src(d)
    try:
        soup = TexSoup(src)
    except Exception as e:
        return ('parse-fails', type(e).__name__)
    exprs = all_exprs(soup.expr, [])
    names = []
    for x in exprs:
        n = SX.raw(x.name)
        if isinstance(x, (TexCmd, TexNamedEnv)):
            names.append(n)         # (no de-duplication: it would depend on the values of symbolic names)
    roots = [soup] + [n for n in soup.descendants if isinstance(n, TexNode)][:5]
    res = []
    if qkind == 'fresh':
        q = SX.fresh(1)
        SX.assume(SX.ch_in(q, K.LETTERS))
        queries = [(q, 'symbolic one-letter name')]
        q2 = SX.fresh(2)
        for ch in q2:
            SX.assume(SX.ch_in(ch, K.LETTERS))
        queries.append((q2, 'symbolic two-letter name'))
    elif qkind == 'names':
        queries = [(n, 'name occurring in the document') for n in names[:6]] + [('zzzq', 'absent name')]
    elif qkind == 'lists':
        queries = [([names[i], names[(i + 1) % len(names)]], 'list of two names') for i in range(min(3, len(names)))] if names else []
        queries.append((['zzzq', 'item'], 'list with an absent name'))
    elif qkind == 'exprs':
        queries = []
        for x in exprs[:6]:
            if isinstance(x, TexNamedEnv):
                queries.append(('\\begin{%s}' % SX.raw(x.name), 'environment opening'))
            elif isinstance(x, TexCmd) and len(x.args) > 0:
                queries.append((SX.raw(str(x)), 'full command text'))
        queries.append(('\\zzzq{x}', 'absent expression'))
    else:
        raise AssertionError(qkind)
    for q, qd in queries:
        for r in roots:
            res.append(search_from(r, q, src, qd))
    if qkind == 'names':
        for n in names[:6]:
            if len(n) <= 2 or n in ('itemize', 'enumerate', 'item', 'newcommand', 'renewcommand', 'providecommand', 'equation', 'verbatim',
                                    'section*', 'align*', 'section', 'align'):
                try:
                    got = getattr(soup, n)
                except Exception as e:
                    SX.check(False, 'C03:attribute-access', lambda: {'source': src, 'name': n, 'error': repr(e)[:200]})
                    continue
                f = soup.find(n)
                SX.check((got is None and f is None) or (got is not None and f is not None and got.expr is f.expr),
                         'C03:attribute-access', lambda: {'source': src, 'name': n})
    return ('ok', tuple(res))
