"""C14 renaming, re-stringing and re-argumenting change exactly that part."""
PROPERTY = 'C14'


def plan(tier, seed):
    from vt import cover
    docs, info = cover.cover_docs(tier, seed)
    info = dict(info)
    units = []
    q = tier == 'quick'
    stride = 5 if q else 3
    nt = 3 if q else 4
    for di, d in enumerate(docs):
        if di >= info['scenario_skeletons'] and (di + seed) % stride:
            continue
        vs = cover.name_variants(d, seed * 7919 + di, cap=2)[:2]
        for v in vs:
            for k in range(nt):
                units.append(dict(hfile='rename.py', fname='c14_rename', args=(v, k, 1 + (k + di) % 2)))
                units.append(dict(hfile='rename.py', fname='c14_args', args=(v, k, ['reverse', 'prefix', 'tail', 'rotate', 'pop-insert', 'assign-new', 'reassign-same', 'swap-items', 'del-item', 'empty-slice'][(k + di) % 10])))
                if not q:
                    units.append(dict(hfile='rename.py', fname='c14_args', args=(v, k, ['reverse', 'prefix', 'tail', 'rotate', 'pop-insert', 'assign-new', 'reassign-same', 'swap-items', 'del-item', 'empty-slice'][(k + di + 3) % 10])))
        for v in cover.variants(d, seed * 7919 + di, cap=2)[:1]:
            for k in range(nt):
                units.append(dict(hfile='rename.py', fname='c14_string', args=(v, k, 1 + (k + di) % 2)))
    info['variants'] = len(units)
    return dict(units=units,
                bounds=dict(info, documents='every %s skeleton of the cover (rotating with the seed) and all scenario skeletons; up to 2 NAME holes symbolic per variant' % ('5th' if q else '3rd'),
                            targets='first %d commands/environments of each document' % nt,
                            edits='rename to a symbolic plain name (1-2 letters, may collide with other names in the document); .string := symbolic TEXT(1..2); args reverse / prefix / tail / rotate / pop+insert / assign new list'),
                outside=['renames that change the name class (verbatim-like, math, \\item, \\newcommand family, signature table)',
                         're-parse comparison for argument orders other than brackets-then-braces'],
                assumptions=['str(TexSoup(src)) == src on the document (assumed; C01)', 'span oracle mirrors the serialisers by node identity'])
