"""C20 (symtex part): string- and token-backed buffers, all operation sequences up to a depth bound."""
import itertools
PROPERTY = 'C20'

OPS = [('next',), ('forward', 0), ('forward', 1), ('forward', 2), ('backward', 1), ('backward', 2), ('peek', 0),
       ('peek', 1), ('peek', -1), ('peek', 3), ('peekr', 0, 2), ('peekr', -1, 1), ('peekr', 1, 4), ('slice', 0, 2),
       ('slice', 1, 5), ('index', 0), ('index', 3), ('hasNext', 1), ('hasNext', 2), ('startswith', 'a'),
       ('startswith', '\\e'), ('endswith', 'a'), ('endswith', 'ab'), ('forward_until', ('eqsym', 1)),
       ('forward_until', ('eq', '}')), ('num_forward_until', ('eqsym', 0)), ('num_forward_until', ('starts', 'a')),
       ('forward_until', ('starts', 'a')), ('forward_until', ('len', 5)), ('num_forward_until', ('len', 5))]


def plan(tier, seed):
    depth = 2 if tier == 'quick' else 3
    units = []
    seqs = [s for d in range(1, depth + 1) for s in itertools.product(OPS, repeat=d)]
    if depth == 3:
        # depth 3 exhaustively for the cursor-moving operations, depth 2 for the rest
        movers = [o for o in OPS if o[0] in ('next', 'forward', 'backward', 'forward_until', 'peekr', 'hasNext', 'num_forward_until')]
        seqs = [s for d in range(1, 3) for s in itertools.product(OPS, repeat=d)] + \
               [s for s in itertools.product(movers, repeat=3)]
    confs = [('str', 3, 0), ('tok', 1, 1), ('tok', 1, 2)] + ([('str', 4, 0), ('tok', 2, 1), ('tok', 2, 3)] if depth == 3 else [])
    for kind, n, frame in confs:
        for ops in seqs:
            units.append(dict(hfile='buffer.py', fname='c20_seq', args=(kind, n, frame, ops)))
    return dict(units=units,
                bounds={'operation_sequences': 'all sequences of length <= %d over %d operation instances' % (depth, len(OPS)),
                        'buffers': 'string-backed over FREE(n<=%d); token-backed over frames with FREE(<=2)' % (4 if depth == 3 else 3)},
                outside=['moves/peeks before index 0', 'sequences longer than %d' % depth],
                assumptions=['model: Python list of items + integer index'])
