"""C01 parse -> serialise round trip is lossless on well-formed documents."""
PROPERTY = 'C01'


def plan(tier, seed):
    from vt import cover
    units, info = cover.doc_units(tier, seed, 'doc.py', 'doc_check')
    return dict(units=units,
                bounds=dict(info, skeletons='pair + sibling-3-gram cover of the documented-construct grammar (depth %s), scenario list, VERIF_SEED extras; <= 4 symbolic characters per variant, every leaf symbolic in some variant' % ('2' if tier == 'quick' else '2 and 3'),
                            holes='TEXT: any code point except \\ { } $ % [ ] NUL DEL CR; NAME: ASCII letters, different from every reserved name'),
                outside=['documents outside the skeleton set', 'holes longer than 2 characters', 'CR line structure'],
                assumptions=['well-formedness rules WF1-WF7 of DESIGN.md §5'])


def signature(v):
    d = v.get('detail') or {}
    if isinstance(d, dict) and d.get('sig'):
        return '%s|%s' % (v['label'], d['sig'])
    return v['label']
